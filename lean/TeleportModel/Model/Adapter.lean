import TeleportModel.Base.Util
/-
Model of the system-contract adapters (property C17):

* `adapter/staking/{hooks,handler,adapter}.go`, `adapter/gov/{hooks,handler,adapter}.go`:
  `PostTxProcessing` (address filter, `Topics[0]` lookup in the handler table, `ParseLog`, message construction),
* `adapter/common/execute.go` (`ValidateBasic`, router lookup, handler),
* `syscontracts/parser.go` (`ParseLog`: topic check, then ABI decoding — the ABI decoder of go-ethereum is an
  external function `Env.decode`; its inverse on what the contracts emit is `Env.encode`),
* `app/app.go` wiring: EVM hook order staking → gov, staking/gov keepers built on `OverwriteBankKeeper`,
* `adapter/bank/keeper.go`: `BurnCoins` = `SendCoinsFromModuleToModule(module, fee_collector)`,
* ethermint v0.13.0 `ApplyTransaction`: EVM execution and hooks on a temporary context that is committed only
  when the hooks return no error; baseapp `runTx`: nothing is written when the message handler fails or panics,
* the two Solidity contracts (`Staking.sol`, `Gov.sol`) as "emit Event(msg.sender, args)", inside a small model of
  EVM call frames (CALL / DELEGATECALL / LOGn / REVERT of user contracts) that records for every emitted log the
  frame that emitted it (ghost field `origin`).

Executable; core Lean only.  The native modules (x/staking, x/distribution, x/gov message servers of cosmos-sdk
v0.45.2) are a parameter `Env.exec` of the adapter model; `Native`/`execMsg` below is the concrete instance used by
the driver (bonded validators, exchange rate 1, no rewards), validated by the differential run.
-/
namespace TM.Adapter

abbrev Addr := Bytes

/-- `syscontracts.StakingContractAddress` = 0x…10000001, `GovContractAddress` = 0x…10000002. -/
def stakingAddr : Addr := [0,0,0,0,0,0,0,0,0,0,0,0,0,0,0,0,0x10,0,0,1]
def govAddr : Addr := [0,0,0,0,0,0,0,0,0,0,0,0,0,0,0,0,0x10,0,0,2]

inductive SysC where | staking | gov
  deriving DecidableEq, Repr

def SysC.addr : SysC → Addr
  | .staking => stakingAddr
  | .gov => govAddr

/-- The events of the two ABIs (`abi.Events` of Staking.json / Gov.json). -/
inductive EvKind where
  | delegated | undelegated | redelegated | withdrew | voted | votedWeighted
  deriving DecidableEq, Repr

def EvKind.contract : EvKind → SysC
  | .voted | .votedWeighted => .gov
  | _ => .staking

/-- `event.ID` = keccak256 of the event signature; the six constants are checked against the real ABIs by every
correspondence run (op `topics`). -/
def topicOf : EvKind → Bytes
  | .delegated => [0xc1,0x81,0xd2,0x11,0xc1,0x37,0x9e,0x7c,0xa1,0x30,0xa7,0x07,0xf3,0xb1,0xd4,0x91,0x77,0xb2,0xc9,0xea,0xca,0x63,0xf5,0xb1,0xc0,0xfc,0xed,0x95,0x7b,0xd9,0x4d,0x19]
  | .redelegated => [0x1e,0x4f,0x99,0xba,0xc1,0xee,0x5d,0x1d,0x13,0xed,0x93,0xa8,0xfe,0xbb,0xb6,0x73,0x0c,0x17,0x60,0xe6,0xb4,0x0b,0x62,0xf4,0x97,0x1e,0xcd,0x57,0xf1,0x84,0xc2,0x0b]
  | .undelegated => [0xb6,0xbe,0x07,0x74,0x8c,0xf5,0xd5,0x07,0x5d,0xe9,0x02,0x4d,0x60,0xc8,0xda,0xdb,0x23,0x46,0x19,0x0b,0x73,0x43,0x18,0xa4,0x9a,0x33,0x07,0x74,0xab,0x1e,0xff,0xc6]
  | .withdrew => [0x27,0x1a,0x84,0xb5,0xab,0xc7,0x46,0x45,0xa8,0xaf,0x43,0xaf,0x4d,0xa7,0xb3,0x54,0x0b,0xb0,0xac,0x76,0x03,0xfb,0xae,0x9f,0xf8,0xb2,0xe2,0xdf,0x54,0x83,0x32,0xd0]
  | .voted => [0xd1,0x4e,0xfc,0xcb,0xe7,0x7f,0x09,0xe3,0x13,0x99,0x93,0x75,0x3f,0x0e,0x0d,0x88,0x3c,0x70,0xf9,0xc3,0x77,0x19,0x6f,0x3a,0x1d,0x57,0xec,0x20,0xa6,0xd9,0x42,0x97]
  | .votedWeighted => [0x47,0x2a,0x83,0xd6,0x3c,0x58,0xb6,0x8a,0x77,0xd3,0xfd,0x34,0x76,0x70,0x9b,0x32,0x8e,0xac,0x4e,0x05,0x8c,0x6c,0x4f,0xd8,0x8c,0x94,0x46,0xf1,0x97,0x82,0xcc,0x7b]

/-- handler table of `staking.NewHookAdapter` / `gov.NewHookAdapter`. -/
def stakingKinds : List EvKind := [.delegated, .undelegated, .redelegated, .withdrew]
def govKinds : List EvKind := [.voted, .votedWeighted]

def kindsOf : SysC → List EvKind
  | .staking => stakingKinds
  | .gov => govKinds

/-- `h.handlers[log.Topics[0]]`. -/
def lookup (kinds : List EvKind) (t : Bytes) : Option EvKind := kinds.find? (fun k => topicOf k == t)

/-- The generated binding structs after `ParseLog` (`StakingDelegated`, …, `GovVotedWeighted`).
`amount = none` is the nil `*big.Int` left by `ParseLog` when `log.Data` is empty. -/
inductive Event where
  | delegated (delegator : Addr) (validator : Bytes) (amount : Option Nat)
  | undelegated (delegator : Addr) (validator : Bytes) (amount : Option Nat)
  | redelegated (delegator : Addr) (src dst : Bytes) (amount : Option Nat)
  | withdrew (delegator : Addr) (validator : Bytes)
  | voted (voter : Addr) (proposal : Nat) (option : Nat)
  | votedWeighted (voter : Addr) (proposal : Nat) (options : List (Nat × Nat))
  deriving DecidableEq, Repr

def Event.kind : Event → EvKind
  | .delegated .. => .delegated
  | .undelegated .. => .undelegated
  | .redelegated .. => .redelegated
  | .withdrew .. => .withdrew
  | .voted .. => .voted
  | .votedWeighted .. => .votedWeighted

/-- The sdk messages built by the handlers. The signer is kept as the 20 address bytes
(`bech32.ConvertAndEncode(prefix, bytes)` is injective and never fails on 20 bytes); the coin denomination is
always `stakingKeeper.BondDenom`. `option : Int` is `VoteOption` (int32); weights are `sdk.Dec` in 1/100. -/
inductive Msg where
  | delegate (delegator : Addr) (validator : Bytes) (amount : Nat)
  | undelegate (delegator : Addr) (validator : Bytes) (amount : Nat)
  | redelegate (delegator : Addr) (src dst : Bytes) (amount : Nat)
  | withdraw (delegator : Addr) (validator : Bytes)
  | vote (voter : Addr) (proposal : Nat) (option : Int)
  | voteWeighted (voter : Addr) (proposal : Nat) (options : List (Int × Int))
  deriving DecidableEq, Repr

def Msg.signer : Msg → Addr
  | .delegate d .. => d
  | .undelegate d .. => d
  | .redelegate d .. => d
  | .withdraw d .. => d
  | .vote v .. => v
  | .voteWeighted v .. => v

/-- Go conversion `int32(uint32)` / `int64(uint64)`: two's complement reinterpretation. -/
def toSigned (bits : Nat) (u : Nat) : Int :=
  let m := u % 2 ^ bits
  if m < 2 ^ (bits - 1) then (m : Int) else (m : Int) - (2 ^ bits : Nat)

/-- `types.VoteOption(event.VoteOption)`. -/
def voteOption (u : Nat) : Int := toSigned 32 u
/-- `sdk.NewDecWithPrec(int64(option.Weight), 2)` in units of 1/100. -/
def weightDec (u : Nat) : Int := toSigned 64 u

/-- Message construction of the six handlers (after `ParseLog`). `NewCoin` panics on the nil amount
(`Coin.Validate` → `Amount.IsNegative()` on a nil big.Int); `HandleVotedWeighted` rejects an empty option list. -/
def construct : Event → Outcome Msg
  | .delegated d v (some a) => .ok (.delegate d v a)
  | .delegated _ _ none => .panic "NewCoin(nil amount)"
  | .undelegated d v (some a) => .ok (.undelegate d v a)
  | .undelegated _ _ none => .panic "NewCoin(nil amount)"
  | .redelegated d s t (some a) => .ok (.redelegate d s t a)
  | .redelegated _ _ _ none => .panic "NewCoin(nil amount)"
  | .withdrew d v => .ok (.withdraw d v)
  | .voted v p o => .ok (.vote v p (voteOption o))
  | .votedWeighted v p os =>
    if os.isEmpty then .err "Must have options"
    else .ok (.voteWeighted v p (os.map (fun ow => (voteOption ow.1, weightDec ow.2))))

def validOption (o : Int) : Bool := o == 1 || o == 2 || o == 3 || o == 4

/-- loop of `MsgVoteWeighted.ValidateBasic`: weight in (0,1], valid option, no duplicate. -/
def weightedOk : List (Int × Int) → List Int → Bool
  | [], _ => true
  | (o, w) :: rest, used =>
    decide (0 < w) && decide (w ≤ 100) && validOption o && !used.contains o && weightedOk rest (o :: used)

def totalWeight (os : List (Int × Int)) : Int := (os.map (·.2)).foldl (· + ·) 0

/-- `msg.ValidateBasic()` of the six message types (cosmos-sdk v0.45.2). -/
def validateBasic : Msg → Bool
  | .delegate _ v a => !v.isEmpty && decide (0 < a)
  | .undelegate _ v a => !v.isEmpty && decide (0 < a)
  | .redelegate _ s t a => !s.isEmpty && !t.isEmpty && decide (0 < a)
  | .withdraw _ v => !v.isEmpty
  | .vote _ _ o => validOption o
  | .voteWeighted _ _ os => !os.isEmpty && weightedOk os [] && totalWeight os == 100

/-- An EVM log; `δ` is the type of `log.Data` (abstract: only `Env.decode` looks inside). -/
structure Log (δ : Type) where
  address : Addr
  topics : List Bytes
  data : δ

/-- External functions of the adapter: go-ethereum's ABI decoding (and the encoding performed by the compiled
contracts), the message router of the app and the native message handlers. -/
structure Env (δ ν : Type) where
  decode : EvKind → δ → Outcome Event
  encode : Event → δ
  routed : Msg → Bool
  exec : ν → Msg → Outcome ν

/-- `syscontracts.ParseLog(event, abi, log, name)`; `t` is `log.Topics[0]`. -/
def parseLog {δ ν} (env : Env δ ν) (k : EvKind) (t : Bytes) (l : Log δ) : Outcome Event :=
  if t ≠ topicOf k then .err "event signature mismatch" else env.decode k l.data

/-- `common.ExecuteMsg`. -/
def executeMsg {δ ν} (env : Env δ ν) (n : ν) (m : Msg) : Outcome ν :=
  if !validateBasic m then .err "ValidateBasic"
  else if !env.routed m then .err "no handler found"
  else env.exec n m

/-- result of a hook run together with the messages handed to `ExecuteMsg`, in order (ghost trace). -/
structure Run (ν : Type) where
  res : Outcome ν
  trace : List Msg

/-- what a handler does with one log up to `ExecuteMsg`. -/
def toItem {δ ν} (env : Env δ ν) (kinds : List EvKind) (l : Log δ) : Outcome Msg :=
  match l.topics with
  | [] => .panic "log.Topics[0]: index out of range"
  | t :: _ =>
    match lookup kinds t with
    | none => .err "no handler"     -- not reached: such logs are skipped
    | some k =>
      match parseLog env k t l with
      | .ok ev => construct ev
      | .err e => .err e
      | .panic p => .panic p

def runItem {δ ν} (env : Env δ ν) (n : ν) : Outcome Msg → Run ν
  | .ok m => { res := executeMsg env n m, trace := [m] }
  | .err e => { res := .err e, trace := [] }
  | .panic p => { res := .panic p, trace := [] }

/-- `HookAdapter.PostTxProcessing` of one adapter (contract address `addr`, handler table `kinds`). -/
def hook {δ ν} (env : Env δ ν) (addr : Addr) (kinds : List EvKind) (n : ν) : List (Log δ) → Run ν
  | [] => { res := .ok n, trace := [] }
  | l :: ls =>
    if l.address == addr then
      match l.topics with
      | [] => { res := .panic "log.Topics[0]: index out of range", trace := [] }
      | t :: _ =>
        match lookup kinds t with
        | none => hook env addr kinds n ls
        | some _ =>
          let r := runItem env n (toItem env kinds l)
          match r.res with
          | .ok n' => let r2 := hook env addr kinds n' ls; { res := r2.res, trace := r.trace ++ r2.trace }
          | _ => r
    else hook env addr kinds n ls

/-- `MultiEvmHooks.PostTxProcessing` as wired in `app.go`: staking hook, then gov hook (the aggregate hook is a
no-op, the packet hook only looks at logs of the packet contract). -/
def postTx {δ ν} (env : Env δ ν) (n : ν) (logs : List (Log δ)) : Run ν :=
  let r1 := hook env stakingAddr stakingKinds n logs
  match r1.res with
  | .ok n' => let r2 := hook env govAddr govKinds n' logs; { res := r2.res, trace := r1.trace ++ r2.trace }
  | _ => r1

/-! ### Specification side: the filtered, mapped log list and its sequential execution -/

/-- the logs an adapter acts on: emitted by its contract, first topic in its table (a log without topics at the
contract address makes the hook panic and is therefore relevant too). -/
def relevant {δ} (addr : Addr) (kinds : List EvKind) (l : Log δ) : Bool :=
  l.address == addr &&
  (match l.topics with
   | [] => true
   | t :: _ => (lookup kinds t).isSome)

def runItems {δ ν} (env : Env δ ν) (n : ν) : List (Outcome Msg) → Run ν
  | [] => { res := .ok n, trace := [] }
  | it :: rest =>
    let r := runItem env n it
    match r.res with
    | .ok n' => let r2 := runItems env n' rest; { res := r2.res, trace := r.trace ++ r2.trace }
    | _ => r

def itemsOf {δ ν} (env : Env δ ν) (c : SysC) (logs : List (Log δ)) : List (Outcome Msg) :=
  (logs.filter (relevant c.addr (kindsOf c))).map (toItem env (kindsOf c))

def expectedItems {δ ν} (env : Env δ ν) (logs : List (Log δ)) : List (Outcome Msg) :=
  itemsOf env .staking logs ++ itemsOf env .gov logs

/-! ### The system contracts and EVM call frames -/

/-- external functions of Staking.sol / Gov.sol with their arguments. -/
inductive SysCall where
  | delegate (validator : Bytes) (amount : Nat)
  | undelegate (validator : Bytes) (amount : Nat)
  | redelegate (src dst : Bytes) (amount : Nat)
  | withdraw (validator : Bytes)
  | vote (proposal : Nat) (option : Nat)
  | voteWeighted (proposal : Nat) (options : List (Nat × Nat))
  deriving DecidableEq, Repr

def SysCall.contract : SysCall → SysC
  | .vote .. | .voteWeighted .. => .gov
  | _ => .staking

/-- `emit Event(msg.sender, args)`. -/
def emitOf (sender : Addr) : SysCall → Event
  | .delegate v a => .delegated sender v (some a)
  | .undelegate v a => .undelegated sender v (some a)
  | .redelegate s t a => .redelegated sender s t (some a)
  | .withdraw v => .withdrew sender v
  | .vote p o => .voted sender p o
  | .voteWeighted p os => .votedWeighted sender p os

/-- the message the property attributes to a call of a system contract by `sender`. -/
def msgOf (sender : Addr) : SysCall → Msg
  | .delegate v a => .delegate sender v a
  | .undelegate v a => .undelegate sender v a
  | .redelegate s t a => .redelegate sender s t a
  | .withdraw v => .withdraw sender v
  | .vote p o => .vote sender p (voteOption o)
  | .voteWeighted p os => .voteWeighted sender p (os.map (fun ow => (voteOption ow.1, weightDec ow.2)))

/-- CALL, DELEGATECALL, STATICCALL, CALL carrying value. -/
inductive CallKind where | call | dcall | scall | vcall
  deriving DecidableEq, Repr

/-- What the code of a user frame does (a call shape). `proxy`/`sys` are sub-calls (CALL or DELEGATECALL) to a
user contract / to a system contract; `ignore` = the caller continues when the sub-call fails (otherwise it
reverts itself). `sysBad` = call data that is not a function of that contract (the contract reverts). -/
inductive Node (δ : Type) where
  | proxy (k : CallKind) (ignore : Bool) (target : Addr) (body : List (Node δ))
  | sys (k : CallKind) (ignore : Bool) (call : SysCall)
  | sysBad (k : CallKind) (ignore : Bool) (c : SysC)
  | rawlog (topics : List Bytes) (data : δ)
  | revert

structure Frame where
  self : Addr      -- address(this): owner of storage, address of emitted logs
  sender : Addr    -- msg.sender

/-- a log with its provenance: `origin = some (sender, call)` iff it was emitted by a frame of a system contract
entered by CALL, `sender` being the msg.sender of that frame. -/
structure GLog (δ : Type) where
  log : Log δ
  origin : Option (Addr × SysCall)

/-- contract-visible EVM state: one entry counter per contract (storage slot 0 of the helper contracts). -/
abbrev Evm := List (Addr × Nat)

def bump (a : Addr) : Evm → Evm
  | [] => [(a, 1)]
  | (b, n) :: rest => if b == a then (b, n + 1) :: rest else (b, n) :: bump a rest

def counter (a : Addr) : Evm → Nat
  | [] => 0
  | (b, n) :: rest => if b == a then n else counter a rest

def sysLog {δ ν} (env : Env δ ν) (address sender : Addr) (c : SysCall) : Log δ :=
  { address := address, topics := [topicOf (emitOf sender c).kind], data := env.encode (emitOf sender c) }

mutual
/-- one step of a frame; `none` = the frame reverts. -/
def runNode {δ ν} (env : Env δ ν) (f : Frame) (st : Evm) : Node δ → Option (Evm × List (GLog δ))
  | .proxy k ignore target body =>
    match k with
    | .scall => if ignore then some (st, []) else none      -- helper contracts write storage on entry: fails in a static frame
    | _ =>
      let f' : Frame := match k with
        | .dcall => f
        | _ => { self := target, sender := f.self }
      match runNodes env f' (bump f'.self st) body with
      | some r => some r
      | none => if ignore then some (st, []) else none
  | .sys .call _ c =>
    some (st, [{ log := sysLog env c.contract.addr f.self c, origin := some (f.self, c) }])
  | .sys .dcall _ c =>
    some (st, [{ log := sysLog env f.self f.sender c, origin := none }])
  | .sys .scall ignore _ => if ignore then some (st, []) else none   -- LOG in a static frame: the contract frame fails
  | .sys .vcall ignore _ => if ignore then some (st, []) else none   -- the functions are not payable: the contract reverts
  | .sysBad _ ignore _ => if ignore then some (st, []) else none
  | .rawlog topics data => some (st, [{ log := { address := f.self, topics := topics, data := data }, origin := none }])
  | .revert => none
def runNodes {δ ν} (env : Env δ ν) (f : Frame) (st : Evm) : List (Node δ) → Option (Evm × List (GLog δ))
  | [] => some (st, [])
  | nd :: rest =>
    match runNode env f st nd with
    | none => none
    | some (st1, l1) =>
      match runNodes env f st1 rest with
      | none => none
      | some (st2, l2) => some (st2, l1 ++ l2)
end

mutual
/-- no user code runs with a system-contract address as `address(this)`. -/
def Node.wf {δ} : Node δ → Bool
  | .proxy _ _ target body => target != stakingAddr && target != govAddr && Node.wfs body
  | _ => true
def Node.wfs {δ} : List (Node δ) → Bool
  | [] => true
  | nd :: rest => nd.wf && Node.wfs rest
end

structure Tx (δ : Type) where
  sender : Addr
  root : Node δ

def Tx.wf {δ} (tx : Tx δ) : Bool := tx.sender != stakingAddr && tx.sender != govAddr && tx.root.wf

structure State (ν : Type) where
  evm : Evm
  native : ν

inductive Status where
  | ok | vmFail | hookFail | failed | panicked
  deriving DecidableEq, Repr

def runEvm {δ ν} (env : Env δ ν) (evm : Evm) (tx : Tx δ) : Option (Evm × List (GLog δ)) :=
  runNode env { self := tx.sender, sender := tx.sender } evm tx.root

/-- ethermint `ApplyTransaction`: EVM and hooks run on `tmpCtx`; `commit()` only if the hooks return nil;
a failed EVM execution runs no hooks and commits nothing; a panic of a hook propagates. -/
def applyTransaction {δ ν} (env : Env δ ν) (s : State ν) (tx : Tx δ) : Outcome (State ν × Status) × List Msg :=
  match runEvm env s.evm tx with
  | none => (.ok (s, .vmFail), [])
  | some (evm', glogs) =>
    let r := postTx env s.native (glogs.map (·.log))
    match r.res with
    | .ok n' => (.ok ({ evm := evm', native := n' }, .ok), r.trace)
    | .err _ => (.ok (s, .hookFail), r.trace)
    | .panic p => (.panic p, r.trace)

/-- baseapp `runTx` around the message: state written only if the handler returned no error and did not panic. -/
def deliverTx {δ ν} (env : Env δ ν) (s : State ν) (tx : Tx δ) : (State ν × Status) × List Msg :=
  match applyTransaction env s tx with
  | (.ok r, tr) => (r, tr)
  | (.err _, tr) => ((s, .failed), tr)
  | (.panic _, tr) => ((s, .panicked), tr)

/-- direct invocation of the hook chain on a given receipt under the same commit discipline. -/
def deliverHooks {δ ν} (env : Env δ ν) (s : State ν) (logs : List (Log δ)) : (State ν × Status) × List Msg :=
  let r := postTx env s.native logs
  match r.res with
  | .ok n' => (({ s with native := n' }, .ok), r.trace)
  | .err _ => ((s, .hookFail), r.trace)
  | .panic _ => ((s, .panicked), r.trace)

/-! ### The module-call path: a received XIBC packet whose call data reaches a system contract

`x/xibc/keeper/msg_server.go` `RecvPacket` (as repaired: callback on the cache context `cctx`, written back only when
`CallPacket` returned no error and the result code is 0; the acknowledgement always on `ctx`),
`core/packet/keeper/evm.go` `CallEVMWithData` (`ApplyMessage(commit = true)`, then `PostTxProcessing` **on the caller's
context**: on a hook error the error is returned but nothing is rolled back here), and the packet / Execute contracts:
transfer part (`endpoint.onRecvPacket`: vouchers minted), then `Execute` CALLs the contract named in the packet with the
packet's call data (msg.sender of that frame = the Execute contract); a failing call yields result code 3, a failing
transfer part code 2. -/

def packetAddr : Addr := [0,0,0,0,0,0,0,0,0,0,0,0,0,0,0,0,0x20,0,0,1]
def executeAddr : Addr := [0,0,0,0,0,0,0,0,0,0,0,0,0,0,0,0,0x20,0,0,3]
/-- ghost key under which the EVM state records the vouchers minted by the transfer part. -/
def voucherKey : Addr := [0x76]

def addCounter (a : Addr) (k : Nat) : Evm → Evm
  | [] => [(a, k)]
  | (b, n) :: rest => if b == a then (b, n + k) :: rest else (b, n) :: addCounter a k rest

structure RecvCall (δ : Type) where
  transfer : Option Nat      -- vouchers the transfer part mints on this chain (none = no transfer data)
  transferOk : Bool          -- false: "token not bound" etc. ⇒ result code 2, call data not run
  reverts : Bool             -- the whole `onRecvPacket` EVM call reverts (e.g. malformed contract address string)
  call : Option (Node δ)     -- what Execute does: one sub-call into the contract named in the packet

/-- `packet.onRecvPacket` inside the EVM: new EVM state, receipt logs, result code; `none` = EVM error. -/
def recvEvm {δ ν} (env : Env δ ν) (st : Evm) (rc : RecvCall δ) : Option (Evm × List (GLog δ) × Nat) :=
  if rc.reverts then none
  else if !rc.transferOk then some (st, [], 2)
  else
    let st1 := match rc.transfer with
      | some a => addCounter voucherKey a st
      | none => st
    match rc.call with
    | none => some (st1, [], 0)
    | some nd =>
      match runNode env { self := executeAddr, sender := packetAddr } st1 nd with
      | some (st2, gl) => some (st2, gl, 0)
      | none => some (st1, [], 3)

/-- outcome of `CallPacket(ctx, "onRecvPacket", …)`; `failed dirty`: an error was returned and the context the callback
ran on is left in the state `dirty` (EVM state committed, hooks partially executed — `CallEVMWithData` rolls nothing back). -/
inductive Cb (ν : Type) where
  | done (s : State ν) (code : Nat)
  | failed (dirty : State ν)
  | panicked

/-- `CallEVMWithData`: `junk` is whatever a failing hook chain leaves behind on the context it ran on — a parameter, so
that every theorem holds for all of them. -/
def callPacket {δ ν} (env : Env δ ν) (junk : State ν) (s : State ν) (rc : RecvCall δ) : Cb ν × List Msg :=
  match recvEvm env s.evm rc with
  | none => (.failed s, [])
  | some (evm', gl, code) =>
    let r := postTx env s.native (gl.map (·.log))
    match r.res with
    | .ok n' => (.done { evm := evm', native := n' } code, r.trace)
    | .err _ => (.failed junk, r.trace)
    | .panic _ => (.panicked, r.trace)

structure Chain (ν : Type) where
  st : State ν
  receipts : List Nat            -- sequences received
  acks : List (Nat × Nat)        -- acknowledgements written: (sequence, result code)

/-- `msg_server.RecvPacket` after the commitment proof has been verified (receipt written on `ctx`). -/
def recvPacket {δ ν} (env : Env δ ν) (junk : State ν) (c : Chain ν) (seq : Nat) (rc : RecvCall δ) :
    Outcome (Chain ν) × List Msg :=
  if c.receipts.contains seq then (.err "packet already received", [])
  else
    let ctx : Chain ν := { c with receipts := seq :: c.receipts }      -- PacketKeeper.RecvPacket(ctx)
    match callPacket env junk ctx.st rc with                            -- callback on cctx (a branch of ctx)
    | (.done s' code, tr) =>
      if code = 0 then (.ok { ctx with st := s', acks := (seq, 0) :: ctx.acks }, tr)   -- write()
      else (.ok { ctx with acks := (seq, code) :: ctx.acks }, tr)                        -- cctx discarded
    | (.failed _, tr) => (.ok { ctx with acks := (seq, 1) :: ctx.acks }, tr)             -- error ack, cctx discarded
    | (.panicked, tr) => (.panic "hook panic", tr)

/-- `runTx` around `MsgRecvPacket`. -/
def deliverRecv {δ ν} (env : Env δ ν) (junk : State ν) (c : Chain ν) (seq : Nat) (rc : RecvCall δ) :
    (Chain ν × Status) × List Msg :=
  match recvPacket env junk c seq rc with
  | (.ok c', tr) => ((c', .ok), tr)
  | (.err _, tr) => ((c, .failed), tr)
  | (.panic _, tr) => ((c, .panicked), tr)

/-! ### Genesis: who runs at the system-contract addresses

`adapter/staking/adapter.go`, `adapter/gov/adapter.go` `InitGenesis` (called by `InitChainer` after every module's
`InitGenesis`): `SetCode(genuine)`, `NewAccountWithAddress(system address)` — a fresh `EthAccount` — with
`CodeHash := keccak(genuine)`, `SetAccount`: **whatever account the genesis document put at the address is overwritten**
(its type, its code hash); evm storage under the address is not touched (the genuine contracts read none). -/

inductive AcctKind where | eth | base
  deriving DecidableEq, Repr

/-- an account as the auth + evm genesis sections describe it. -/
structure GenAccount where
  kind : AcctKind
  code : Bytes                       -- [] = no code
  storage : List (Bytes × Bytes)
  deriving DecidableEq, Repr

/-- accounts by address after the modules' `InitGenesis`. -/
abbrev Accounts := Addr → Option GenAccount

/-- one adapter's `InitGenesis`. -/
def installCode (genuine : Bytes) (prior : Option GenAccount) : GenAccount :=
  { kind := .eth, code := genuine, storage := (prior.map (·.storage)).getD [] }

/-- `adapter.Manager.InitGenesis`: staking adapter, then gov adapter. -/
def adapterInitGenesis (genuine : SysC → Bytes) (accts : Accounts) : Accounts :=
  fun a =>
    if a = stakingAddr then some (installCode (genuine .staking) (accts a))
    else if a = govAddr then some (installCode (genuine .gov) (accts a))
    else accts a

def codeAt (accts : Accounts) (a : Addr) : Bytes := ((accts a).map (·.code)).getD []

/-- the premise under which a `Node.sys` frame is the right description of a call to a system address. -/
def RunsGenuine (genuine : SysC → Bytes) (accts : Accounts) : Prop :=
  ∀ c : SysC, codeAt accts c.addr = genuine c ∧ ((accts c.addr).map (·.kind)) = some .eth

/-! ### Bank: `OverwriteBankKeeper.BurnCoins` -/

abbrev Denom := String

structure Bank where
  bal : List ((Addr × Denom) × Nat)
  supply : List (Denom × Nat)
  modules : List (String × Addr)       -- module accounts known to the account keeper (name ↦ address)

def balOf (b : List ((Addr × Denom) × Nat)) (a : Addr) (d : Denom) : Nat :=
  match b with
  | [] => 0
  | ((a', d'), n) :: rest => if a' = a ∧ d' = d then n else balOf rest a d

def setBal (b : List ((Addr × Denom) × Nat)) (a : Addr) (d : Denom) (v : Nat) : List ((Addr × Denom) × Nat) :=
  match b with
  | [] => [((a, d), v)]
  | ((a', d'), n) :: rest => if a' = a ∧ d' = d then ((a', d'), v) :: rest else ((a', d'), n) :: setBal rest a d v

abbrev Coins := List (Denom × Int)

/-- `Coins.IsValid` for valid denominations: amounts positive, denominations strictly ascending. -/
def coinsValid : Coins → Bool
  | [] => true
  | [(_, a)] => decide (0 < a)
  | (d1, a1) :: (d2, a2) :: rest => decide (0 < a1) && decide (d1 < d2) && coinsValid ((d2, a2) :: rest)

/-- `subUnlockedCoins`: coin by coin, each checked against the current balance. -/
def subCoins (b : List ((Addr × Denom) × Nat)) (a : Addr) : Coins → Option (List ((Addr × Denom) × Nat))
  | [] => some b
  | (d, x) :: rest =>
    if x ≤ (balOf b a d : Int) then subCoins (setBal b a d (balOf b a d - x.toNat)) a rest else none

/-- `addCoins`. -/
def addCoins (b : List ((Addr × Denom) × Nat)) (a : Addr) : Coins → List ((Addr × Denom) × Nat)
  | [] => b
  | (d, x) :: rest => addCoins (setBal b a d (balOf b a d + x.toNat)) a rest

/-- move one coin of the bond denomination between two accounts (used by the native model). -/
def moveCoin (b : List ((Addr × Denom) × Nat)) (src dst : Addr) (d : Denom) (x : Nat) : List ((Addr × Denom) × Nat) :=
  let b1 := setBal b src d (balOf b src d - x)
  setBal b1 dst d (balOf b1 dst d + x)

def moduleAddr (bk : Bank) (name : String) : Option Addr := (bk.modules.find? (·.1 == name)).map (·.2)

def feeCollectorName : String := "fee_collector"

/-- `SendCoinsFromModuleToModule`: panics when either module account does not exist; `SendCoins` fails on
invalid coins or insufficient funds; the supply record is not touched. -/
def sendModuleToModule (bk : Bank) (src dst : String) (amt : Coins) : Outcome Bank :=
  match moduleAddr bk src with
  | none => .panic "module account does not exist"
  | some sa =>
    match moduleAddr bk dst with
    | none => .panic "module account does not exist"
    | some da =>
      if !coinsValid amt then .err "invalid coins"
      else match subCoins bk.bal sa amt with
        | none => .err "insufficient funds"
        | some b1 => .ok { bk with bal := addCoins b1 da amt }

/-- `OverwriteBankKeeper.BurnCoins`. -/
def burnCoins (bk : Bank) (moduleName : String) (amt : Coins) : Outcome Bank :=
  sendModuleToModule bk moduleName feeCollectorName amt

/-- Σ of all balances of one denomination. -/
def totalBal (b : List ((Addr × Denom) × Nat)) (d : Denom) : Nat :=
  match b with
  | [] => 0
  | ((_, d'), n) :: rest => (if d' = d then n else 0) + totalBal rest d

/-! ### Concrete native state used by the driver (cosmos-sdk v0.45.2 staking / distribution / gov message servers
in the regime of the harness: all validators bonded, exchange rate 1, no rewards outstanding) -/

inductive ValClass where
  | known (i : Nat)      -- operator address of validator i
  | unknown              -- well-formed operator address, no such validator
  | invalid              -- `ValAddressFromBech32` fails
  deriving DecidableEq, Repr

structure Native where
  bank : Bank
  bond : Denom
  bondedPool : Addr
  notBondedPool : Addr
  valTokens : List Nat
  valBonded : List Bool := []                     -- status of validator i (missing entry = Bonded); others are Unbonded
  dels : List ((Addr × Nat) × Nat)
  ubds : List ((Addr × Nat) × List (Nat × Nat))          -- entries: (balance, completion time in ns)
  reds : List ((Addr × Nat × Nat) × List (Nat × Nat))
  props : List (Nat × Bool)                       -- proposal id ↦ in voting period
  votes : List ((Nat × Addr) × List (Int × Int))
  now : Nat := 0                                  -- block time (ns since the start of the world)
  height : Nat := 1
  unbondingTime : Nat := 0                        -- staking parameter (ns)
  powerReduction : Nat := 10 ^ 16                 -- tokens per unit of consensus power
  feeAddr : Addr := []                            -- fee collector
  distrAddr : Addr := []                          -- distribution module account

def alookup {κ β} [BEq κ] (l : List (κ × β)) (k : κ) : Option β := (l.find? (·.1 == k)).map (·.2)
def aset {κ β} [BEq κ] (l : List (κ × β)) (k : κ) (v : β) : List (κ × β) :=
  match l with
  | [] => [(k, v)]
  | (k', v') :: rest => if k' == k then (k', v) :: rest else (k', v') :: aset rest k v
def aerase {κ β} [BEq κ] (l : List (κ × β)) (k : κ) : List (κ × β) := l.filter (fun p => !(p.1 == k))

def maxEntries : Nat := 7
/-- `maxDecBitLen` = 256 + 60. -/
def maxDecBitLen : Nat := 316
def bitLen (n : Nat) : Nat := if n = 0 then 0 else Nat.log2 n + 1

def nbal (n : Native) (a : Addr) : Nat := balOf n.bank.bal a n.bond
def nmove (n : Native) (src dst : Addr) (x : Nat) : Native :=
  { n with bank := { n.bank with bal := moveCoin n.bank.bal src dst n.bond x } }

def isBonded (n : Native) (i : Nat) : Bool := n.valBonded.getD i true
/-- the staking pool holding the tokens of validator `i`. -/
def poolOf (n : Native) (i : Nat) : Addr := if isBonded n i then n.bondedPool else n.notBondedPool

/-- `SetValidatorByPowerIndex` → `TokensToConsensusPower(tokens).Int64()` panics when the power does not fit an int64. -/
def powerOverflow (n : Native) (tokens : Nat) : Bool := tokens / n.powerReduction ≥ 2 ^ 63

def addTokens (l : List Nat) (i : Nat) (x : Int) : List Nat := l.set i ((((l.getD i 0 : Nat) : Int) + x).toNat)

/-- `ValidateUnbondAmount`. -/
def validateUnbond (n : Native) (del : Addr) (i : Nat) (amt : Nat) : Outcome Nat :=
  match alookup n.dels (del, i) with
  | none => .err "no delegation"
  | some sh =>
    if bitLen (n.valTokens.getD i 0 * 10 ^ 18 * amt) > maxDecBitLen then .panic "Int overflow"
    else if amt > sh then .err "invalid shares amount"
    else .ok sh

/-- `Unbond`: remove shares from the delegation and tokens from the validator. -/
def unbond (n : Native) (del : Addr) (i : Nat) (amt sh : Nat) : Native :=
  { n with dels := (if sh - amt = 0 then aerase n.dels (del, i) else aset n.dels (del, i) (sh - amt)),
           valTokens := addTokens n.valTokens i (-(amt : Int)) }

def execMsg (cls : Bytes → ValClass) (n : Native) : Msg → Outcome Native
  | .delegate del v amt =>
    match cls v with
    | .invalid => .err "bech32"
    | .unknown => .err "no validator"
    | .known i =>
      if nbal n del < amt then .err "insufficient funds"
      else if powerOverflow n (n.valTokens.getD i 0 + amt) then .panic "Int64() out of bound"
      else
        let n1 := nmove n del (poolOf n i) amt
        .ok { n1 with valTokens := addTokens n1.valTokens i amt,
                      dels := aset n1.dels (del, i) ((alookup n1.dels (del, i)).getD 0 + amt) }
  | .undelegate del v amt =>
    match cls v with
    | .invalid => .err "bech32"
    | .unknown => .err "no validator"
    | .known i =>
      match validateUnbond n del i amt with
      | .err e => .err e
      | .panic p => .panic p
      | .ok sh =>
        let es := (alookup n.ubds (del, i)).getD []
        if es.length ≥ maxEntries then .err "too many unbonding entries"
        else
          let n1 := unbond n del i amt sh
          let n2 := if isBonded n i then nmove n1 n1.bondedPool n1.notBondedPool amt else n1
          .ok { n2 with ubds := aset n2.ubds (del, i) (es ++ [(amt, n.now + n.unbondingTime)]) }
  | .redelegate del s t amt =>
    match cls s with
    | .invalid => .err "bech32"
    | .unknown => .err "no validator"
    | .known i =>
      match validateUnbond n del i amt with
      | .err e => .err e
      | .panic p => .panic p
      | .ok sh =>
        match cls t with
        | .invalid => .err "bech32"
        | .unknown => .err "bad redelegation dst"
        | .known j =>
          if i == j then .err "self redelegation"
          else if n.reds.any (fun r => r.1.1 == del && r.1.2.2 == i) then .err "transitive redelegation"
          else
            let es := (alookup n.reds (del, i, j)).getD []
            if es.length ≥ maxEntries then .err "too many redelegation entries"
            else if powerOverflow n (n.valTokens.getD j 0 + amt) then .panic "Int64() out of bound"
            else
              let n1 := unbond n del i amt sh
              let n2 := if poolOf n i == poolOf n j then n1 else nmove n1 (poolOf n i) (poolOf n j) amt
              .ok { n2 with valTokens := addTokens n2.valTokens j amt,
                            dels := aset n2.dels (del, j) ((alookup n2.dels (del, j)).getD 0 + amt),
                            -- an Unbonded source validator completes at once: no redelegation entry
                            reds := if isBonded n i then aset n2.reds (del, i, j) (es ++ [(amt, n.now + n.unbondingTime)]) else n2.reds }
  | .withdraw del v =>
    match cls v with
    | .invalid => .err "bech32"
    | .unknown => .err "no validator"
    | .known i =>
      match alookup n.dels (del, i) with
      | none => .err "no delegation"
      | some _ => .ok n
  | .vote voter p o =>
    match alookup n.props p with
    | none => .err "unknown proposal"
    | some false => .err "inactive proposal"
    | some true => .ok { n with votes := aset n.votes (p, voter) [(o, 100)] }
  | .voteWeighted voter p os =>
    match alookup n.props p with
    | none => .err "unknown proposal"
    | some false => .err "inactive proposal"
    | some true => .ok { n with votes := aset n.votes (p, voter) os }

/-! #### blocks: `app.BeginBlocker` / `app.EndBlocker` as far as the dumped state is concerned -/

/-- staking `EndBlocker`: mature unbonding entries (completion ≤ block time) are paid out of the not-bonded pool to the
delegator, mature redelegation entries are dropped. -/
def matureUbds (n : Native) : List ((Addr × Nat) × List (Nat × Nat)) → Native
  | [] => { n with ubds := [] }
  | (k, es) :: rest =>
    let paid := ((es.filter (fun e => e.2 ≤ n.now)).map (·.1)).foldl (· + ·) 0
    let left := es.filter (fun e => !(e.2 ≤ n.now))
    let n1 := if paid = 0 then n else nmove n n.notBondedPool k.1 paid
    let n2 := matureUbds n1 rest
    if left.isEmpty then n2 else { n2 with ubds := (k, left) :: n2.ubds }

def endBlock (n : Native) : Native :=
  let n1 := matureUbds n n.ubds
  { n1 with reds := (n1.reds.map (fun r => (r.1, r.2.filter (fun e => !(e.2 ≤ n1.now))))).filter (fun r => !r.2.isEmpty) }

/-- distribution `BeginBlocker` without previous votes (`AllocateTokens`): everything the fee collector holds goes to the
distribution module account (community pool); runs for heights > 1. -/
def sweepFees (n : Native) : List ((Addr × Denom) × Nat) → Native
  | [] => n
  | ((a, d), x) :: rest =>
    let n1 := if a = n.feeAddr ∧ x > 0 then { n with bank := { n.bank with bal := moveCoin n.bank.bal n.feeAddr n.distrAddr d x } } else n
    sweepFees n1 rest

def beginBlock (n : Native) (dt : Nat) : Native :=
  let n1 := { n with now := n.now + dt, height := n.height + 1 }
  if n1.height > 1 then sweepFees n1 n1.bank.bal else n1

end TM.Adapter
