import TeleportModel.Base.Util
/-
C06 (a) — who can drive the bridge, message level.

Executable model of
  * the relayer registry            x/xibc/core/client/keeper/relayer.go
        RegisterRelayers (store.Set — silent overwrite, store order = key bytes), GetRelayer,
        AuthRelayer, GetRelayerAddressOnOtherChain (first matching chain → Addresses[i]),
        GetRelayerAddressOnTeleport (first relayer in STORE ORDER with a matching chain whose
        address strings.EqualFold's the given one),
        and the stateless validation of RegisterRelayerProposal (core/client/types/proposal.go);
  * the three msg-server gates      x/xibc/keeper/msg_server.go   (UpdateClient, RecvPacket, Acknowledgement)
    in the order in which the code checks, including the keeper functions they call first
    (core/packet/keeper/packet.go RecvPacket / AcknowledgePacket / WriteAcknowledgement / ValidatePacket);
  * the TSS client                  x/xibc/clients/tss-client/types/client_state.go
        CheckMsg (canonical signer = TssAddress), VerifyPacketCommitment / VerifyPacketAcknowledgement
        (proof = TssAddress) together with the substitution `proof := []byte(msg.Signer)` of packet.go.

External computations are parameters and arrive on the op line: the proof-verifying clients'
verdict (`proofOK`), the header check of `ClientKeeper.UpdateClient` (`hdrOK`), whether the packet
bytes are the ones whose hash is stored (`genuine`), whether the EVM callbacks succeed (`evmOK`),
bech32 canonicalisation of the signer (`Signer.canon`), `strings.EqualFold` (`fold`).
Transaction atomicity (`runMsgs` on a cache context, written only on success) is `deliver`.
Core Lean only.
-/
namespace TM.Auth

/-- Go strings are byte sequences. -/
abbrev Str := Bytes

/-! ### relayer registry -/

structure Relayer where
  address : Str
  chains : List Str
  addresses : List Str
  deriving Repr, DecidableEq

/-- lexicographic order on byte strings = iteration order of the KV store. -/
def bytesLt : Bytes → Bytes → Bool
  | [], [] => false
  | [], _ :: _ => true
  | _ :: _, [] => false
  | a :: as, b :: bs => if a < b then true else if b < a then false else bytesLt as bs

/-- the `relayers` prefix of the xibc store, in store order. -/
abbrev Registry := List Relayer

/-- `RegisterRelayers`: `store.Set([]byte(address), ir)` — overwrites silently. -/
def register (reg : Registry) (r : Relayer) : Registry :=
  match reg with
  | [] => [r]
  | x :: rest =>
    if x.address = r.address then r :: rest
    else if bytesLt r.address x.address then r :: x :: rest
    else x :: register rest r

/-- `GetRelayer`. -/
def getRelayer (reg : Registry) (a : Str) : Option Relayer :=
  match reg with
  | [] => none
  | x :: rest => if x.address = a then some x else getRelayer rest a

/-- chains a signer is registered for (empty when not registered). -/
def chainsOf (reg : Registry) (a : Str) : List Str :=
  match getRelayer reg a with
  | some ir => ir.chains
  | none => []

/-- `AuthRelayer`. -/
def authRelayer (reg : Registry) (chain : Str) (a : Str) : Bool :=
  (chainsOf reg a).contains chain

inductive Lookup where
  | found (a : Str)
  | notFound
  | indexPanic            -- `ir.Addresses[i]` with i ≥ len(Addresses)
  deriving Repr, DecidableEq

/-- the loop of `GetRelayerAddressOnOtherChain`: first index with `Chains[i] == chain` → `Addresses[i]`. -/
def zipFind : List Str → List Str → Str → Lookup
  | [], _, _ => .notFound
  | c :: cs, [], ch => if c = ch then .indexPanic else zipFind cs [] ch
  | c :: cs, a :: as, ch => if c = ch then .found a else zipFind cs as ch

/-- `GetRelayerAddressOnOtherChain`. -/
def otherChainAddr (reg : Registry) (chain : Str) (a : Str) : Lookup :=
  match getRelayer reg a with
  | some ir => zipFind ir.chains ir.addresses chain
  | none => .notFound

inductive Scan where
  | hit | miss | panic
  deriving Repr, DecidableEq

/-- inner loop of `GetRelayerAddressOnTeleport` (`chain == chainName && EqualFold(Addresses[i], address)`). -/
def scanOne (fold : Str → Str → Bool) : List Str → List Str → Str → Str → Scan
  | [], _, _, _ => .miss
  | c :: cs, [], ch, a => if c = ch then .panic else scanOne fold cs [] ch a
  | c :: cs, x :: xs, ch, a => if c = ch && fold x a then .hit else scanOne fold cs xs ch a

/-- `GetRelayerAddressOnTeleport`: relayers in store order. -/
def teleportAddr (fold : Str → Str → Bool) : Registry → Str → Str → Lookup
  | [], _, _ => .notFound
  | ir :: rest, ch, a =>
    match scanOne fold ir.chains ir.addresses ch a with
    | .hit => .found ir.address
    | .panic => .indexPanic
    | .miss => teleportAddr fold rest ch a

/-- ASCII case folding; equals `strings.EqualFold` on ASCII strings (the driver's instance of `fold`). -/
def lowerByte (b : UInt8) : UInt8 := if 65 ≤ b ∧ b ≤ 90 then b + 32 else b
def asciiFold (x y : Str) : Bool := x.map lowerByte == y.map lowerByte

/-- `host.ClientIdentifierValidator`: non-blank, no '/', 3..64 bytes, `[a-zA-Z0-9._+\-#\[\]<>]+`. -/
def idByte (b : UInt8) : Bool :=
  (48 ≤ b && b ≤ 57) || (65 ≤ b && b ≤ 90) || (97 ≤ b && b ≤ 122) ||
  b == 46 || b == 95 || b == 43 || b == 45 || b == 35 || b == 91 || b == 93 || b == 60 || b == 62
def validChainId (c : Str) : Bool := decide (3 ≤ c.length) && decide (c.length ≤ 64) && c.all idByte

/-- `RegisterRelayerProposal.ValidateBasic` (title/description are fixed valid strings in the harness;
`addrOK` = `sdk.AccAddressFromBech32(address)` succeeded). -/
def validRegistration (addrOK : Bool) (r : Relayer) : Bool :=
  addrOK && !r.addresses.isEmpty && decide (r.addresses.length = r.chains.length) && r.chains.all validChainId

/-! ### clients, packets, state -/

inductive Client where
  | tss (addr : Str)
  | other (updates : Nat)      -- proof-verifying client (tendermint / bsc / eth); counter of accepted updates
  deriving Repr, DecidableEq

abbrev Clients := List (Str × Client)

def getClient (cs : Clients) (ch : Str) : Option Client :=
  match cs with
  | [] => none
  | (k, c) :: rest => if k = ch then some c else getClient rest ch

def setClient (cs : Clients) (ch : Str) (c : Client) : Clients :=
  match cs with
  | [] => [(ch, c)]
  | (k, x) :: rest => if k = ch then (k, c) :: rest else (k, x) :: setClient rest ch c

structure Triple where
  src : Str
  dst : Str
  seq : Nat
  deriving Repr, DecidableEq

structure Pkt where
  src : Str
  dst : Str
  seq : Nat
  hasData : Bool          -- len(CallData) ≠ 0 ∨ len(TransferData) ≠ 0
  deriving Repr, DecidableEq

def Pkt.triple (p : Pkt) : Triple := ⟨p.src, p.dst, p.seq⟩

/-- `Packet.ValidateBasic`. -/
def Pkt.validBasic (p : Pkt) : Bool :=
  !p.src.isEmpty && !p.dst.isEmpty && p.src != p.dst && p.seq != 0 && p.hasData

/-- outcome of `PacketKeeper.CallPacket(cctx, "onRecvPacket", packet)` — external (EVM): the contract returned
result code 0, returned a result code ≠ 0, or the call itself failed (revert, failing post-transaction hook). -/
inductive Cb where
  | ok | code | evmFail
  deriving Repr, DecidableEq

/-- which branch of `msg_server.RecvPacket` / `AcknowledgePacket` wrote an acknowledgement. -/
inductive AckClass where
  | cbOk            -- callback returned code 0: `NewAcknowledgement(result.Code, …, relayer, …)`
  | cbCode          -- callback returned code ≠ 0: same constructor, state of the callback discarded
  | cbEvmFail       -- `CallPacket` failed: error ack "receive packet callback failed"
  | dstNotFound     -- destination is another chain without client: error ack "dstChain not found"
  | relayed         -- ack bytes of the counterparty, stored by `AcknowledgePacket` on a relay chain
  deriving Repr, DecidableEq

/-- a written acknowledgement: its fee-recipient field (`none` for relayed bytes) and the branch that wrote it. -/
structure AckRec where
  relayer : Option Str
  cls : AckClass
  deriving Repr, DecidableEq

structure Signer where
  raw : Str               -- `msg.Signer` as written in the message
  canon : Str             -- `msg.GetSigners()[0].String()` (canonical bech32 of the same account)
  deriving Repr, DecidableEq

structure State where
  self : Str                               -- this chain's name
  reg : Registry
  clients : Clients
  receipts : List Triple
  commits : List Triple                    -- triples with a stored packet commitment
  acks : List (Triple × AckRec)            -- written acks
  deriving Repr, DecidableEq

def hasAck (acks : List (Triple × AckRec)) (t : Triple) : Bool := acks.any (fun x => x.1 == t)
def ackOf (acks : List (Triple × AckRec)) (t : Triple) : Option AckRec :=
  match acks with
  | [] => none
  | (k, v) :: rest => if k = t then some v else ackOf rest t

/-- the check every client type applies to a packet / ack proof, after `proof := []byte(msg.Signer)`
for TSS clients. -/
def verify (c : Client) (s : Signer) (proofOK : Bool) : Bool :=
  match c with
  | .tss a => s.raw == a
  | .other _ => proofOK

/-- `ClientState.CheckMsg`. -/
def checkMsg (c : Client) (s : Signer) : Bool :=
  match c with
  | .tss a => s.canon == a
  | .other _ => true

/-- `ValidatePacket`. -/
def validatePacket (st : State) (p : Pkt) : Bool :=
  p.validBasic && (p.dst == st.self || p.src == st.self)

inductive Msg where
  | update (s : Signer) (chain : Str) (hdrOK : Bool) (newTss : Option Str)
  | recv (s : Signer) (p : Pkt) (proofOK : Bool) (cb : Cb)
  | ack (s : Signer) (p : Pkt) (genuine proofOK : Bool) (ackRelayer : Str) (ackDecodes evmOK : Bool)
  deriving Repr, DecidableEq

/-- msg_server.UpdateClient: AuthRelayer → client found → CheckMsg → ClientKeeper.UpdateClient. -/
def execUpdate (st : State) (s : Signer) (chain : Str) (hdrOK : Bool) (newTss : Option Str) : Outcome State :=
  if !authRelayer st.reg chain s.raw then .err "unauthorized"
  else match getClient st.clients chain with
    | none => .err "client-not-found"
    | some c =>
      if !checkMsg c s then .err "check-msg"
      else if !hdrOK then .err "header"
      else match c, newTss with
        | .tss _, some a => .ok { st with clients := setClient st.clients chain (.tss a) }
        | .tss _, none => .ok st
        | .other n, _ => .ok { st with clients := setClient st.clients chain (.other (n + 1)) }

/-- msg_server.RecvPacket (PacketKeeper.RecvPacket first, then the relayer lookup, then the ack). -/
def execRecv (st : State) (s : Signer) (p : Pkt) (proofOK : Bool) (cb : Cb) : Outcome State :=
  if !validatePacket st p then .err "validate"
  else if st.receipts.contains p.triple then .err "receipt-exists"
  else match getClient st.clients p.src with
    | none => .err "client-not-found"
    | some c =>
      if !verify c s proofOK then .err "verify"
      else
        let dstClient := (getClient st.clients p.dst).isSome
        let st1 : State :=
          { st with receipts := p.triple :: st.receipts,
                    commits := if p.dst != st.self && dstClient && !st.commits.contains p.triple
                               then p.triple :: st.commits else st.commits }
        match otherChainAddr st.reg p.src s.raw with
        | .notFound => .err "relayer-not-found"
        | .indexPanic => .panic "Addresses[i]"
        | .found rl =>
          -- every branch that writes an acknowledgement records the looked-up `rl` as fee recipient
          if p.dst == st.self then
            if hasAck st1.acks p.triple then .err "ack-exists"
            else match cb with
              | .evmFail => .ok { st1 with acks := (p.triple, ⟨some rl, .cbEvmFail⟩) :: st1.acks }
              | .code => .ok { st1 with acks := (p.triple, ⟨some rl, .cbCode⟩) :: st1.acks }
              | .ok => .ok { st1 with acks := (p.triple, ⟨some rl, .cbOk⟩) :: st1.acks }
          else if !dstClient then
            if hasAck st1.acks p.triple then .err "ack-exists"
            else .ok { st1 with acks := (p.triple, ⟨some rl, .dstNotFound⟩) :: st1.acks }
          else .ok st1

/-- the branch in which an accepted receive writes its acknowledgement (specification; `execRecv` does not use it). -/
def recvClass (st : State) (p : Pkt) (cb : Cb) : AckClass :=
  if p.dst == st.self then (match cb with | .ok => .cbOk | .code => .cbCode | .evmFail => .cbEvmFail)
  else .dstNotFound

/-- msg_server.Acknowledgement (PacketKeeper.AcknowledgePacket first). -/
def execAck (fold : Str → Str → Bool) (st : State) (s : Signer) (p : Pkt) (genuine proofOK : Bool)
    (ackRelayer : Str) (ackDecodes evmOK : Bool) : Outcome State :=
  if !validatePacket st p then .err "validate"
  else if !(st.commits.contains p.triple && genuine) then .err "commitment"
  else match getClient st.clients p.dst with
    | none => .err "client-not-found"
    | some c =>
      if !verify c s proofOK then .err "verify"
      else
        let st1 : State := { st with commits := st.commits.filter (fun t => t != p.triple) }
        if p.src != st.self && (getClient st.clients p.src).isNone then .err "client-not-found"
        else
          let st2 : State :=
            if p.src != st.self then
              { st1 with acks := (p.triple, ⟨none, .relayed⟩) :: st1.acks.filter (fun x => x.1 != p.triple) }
            else st1
          if !ackDecodes then .err "ack-decode"
          else if p.src == st.self then
            match teleportAddr fold st.reg p.dst ackRelayer with
            | .notFound => .err "relayer-not-found"
            | .indexPanic => .panic "Addresses[i]"
            | .found _ => if !evmOK then .err "evm" else .ok st2
          else .ok st2

def exec (fold : Str → Str → Bool) (st : State) : Msg → Outcome State
  | .update s chain hdrOK newTss => execUpdate st s chain hdrOK newTss
  | .recv s p proofOK cb => execRecv st s p proofOK cb
  | .ack s p genuine proofOK rl dec evm => execAck fold st s p genuine proofOK rl dec evm

/-- `BaseApp.runTx`: the message runs on a cache of the state which is written only if it succeeds;
errors and (recovered) panics leave the state as it was. Returns the new state and "accepted". -/
def deliver (fold : Str → Str → Bool) (st : State) (m : Msg) : State × Bool :=
  match exec fold st m with
  | .ok st' => (st', true)
  | .err _ => (st, false)
  | .panic _ => (st, false)

/-! ### histories: registrations (governance) interleaved with messages -/

inductive Op where
  | reg (addrOK : Bool) (r : Relayer)
  | regDry (addrOK : Bool) (r : Relayer)   -- the registration handler run on a context branch that is DISCARDED
  | restart                                -- export genesis → JSON → validate → wipe → init genesis (module or whole app)
  | msg (m : Msg)
  deriving Repr, DecidableEq

def applyReg (st : State) (addrOK : Bool) (r : Relayer) : State × Bool :=
  if validRegistration addrOK r then ({ st with reg := register st.reg r }, true) else (st, false)

/-- A registration proposal that is only dry-run (gov `SubmitProposal` runs the routed handler on a
`CacheContext` it throws away), or run inside a transaction / proposal execution that fails later: the store —
the only place the registry lives — never receives it. Returns whether the handler itself succeeded. -/
def applyRegDry (st : State) (addrOK : Bool) (r : Relayer) : State × Bool :=
  (st, validRegistration addrOK r)

def stepOp (fold : Str → Str → Bool) (st : State) : Op → State × Bool
  | .reg addrOK r => applyReg st addrOK r
  | .regDry addrOK r => applyRegDry st addrOK r
  | .restart => (st, true)                 -- a restart from the exported state loses and invents nothing
  | .msg m => deliver fold st m

/-- run a history, returning the final state and the list of (state before, op, accepted). -/
def run (fold : Str → Str → Bool) : State → List Op → State × List (State × Op × Bool)
  | st, [] => (st, [])
  | st, o :: rest =>
    let (st', ok) := stepOp fold st o
    let (fin, tr) := run fold st' rest
    (fin, (st, o, ok) :: tr)

/-! ### start from a genesis document (x/xibc/core/client/genesis.go `InitGenesis`, types/genesis.go `Validate`) -/

/-- keys of a client's store: the two RESERVED kinds (owned by the `clients` / `clients_consensus` sections) and
everything else (processed times, iteration index keys, … — opaque). -/
inductive GKey where
  | clientState
  | consensus (h : Nat)
  | other (k : Bytes)
  deriving Repr, DecidableEq

/-- what a store entry decodes to, as far as C06 cares: a client state (who is configured), a consensus state
(identity `id` of its content) or opaque bytes. -/
inductive GVal where
  | client (c : Client)
  | cons (id : Nat)
  | raw (id : Nat)
  deriving Repr, DecidableEq

/-- the per-client stores, as an association list: the FIRST entry of a key is the current value (`cset` conses). -/
abbrev CStore := List ((Str × GKey) × GVal)

def cset (s : CStore) (k : Str × GKey) (v : GVal) : CStore := (k, v) :: s
def cget (s : CStore) (k : Str × GKey) : Option GVal :=
  match s with
  | [] => none
  | (k', v) :: rest => if k' = k then some v else cget rest k

structure GenDoc where
  native : Str
  clients : List (Str × Client × Bool)          -- chain, client state, "its Validate() passes" (bech32 of a TSS address: external)
  consensus : List (Str × Nat × Nat)            -- chain, height, content identity
  metadata : List (Str × GKey × GVal)           -- `clients_metadata`: arbitrary key / value pairs per chain
  relayers : List Relayer                       -- NOT validated by `GenesisState.Validate`
  deriving Repr

/-- `GenesisState.Validate` (client part): identifiers, every client state valid, consensus states and metadata only
for listed clients (metadata keys / values merely non-empty), native chain name an identifier. -/
def GenDoc.valid (d : GenDoc) : Bool :=
  d.clients.all (fun c => validChainId c.1 && c.2.2) &&
  d.consensus.all (fun c => d.clients.any (fun x => x.1 == c.1) && c.2.1 != 0) &&
  d.metadata.all (fun m => d.clients.any (fun x => x.1 == m.1)) &&
  validChainId d.native

/-- `InitGenesis`: all metadata first, THEN the client states, then the consensus states — so that the validated
sections overwrite whatever the metadata wrote under the reserved keys. -/
def importStore (d : GenDoc) : CStore :=
  let s0 := d.metadata.foldl (fun s m => cset s (m.1, m.2.1) m.2.2) []
  let s1 := d.clients.foldl (fun s c => cset s (c.1, .clientState) (.client c.2.1)) s0
  d.consensus.foldl (fun s c => cset s (c.1, .consensus c.2.1) (.cons c.2.2)) s1

/-- the client configuration read back from the imported store (`GetClientState` for every listed chain). -/
def importedClients (d : GenDoc) : Clients :=
  (d.clients.map (·.1)).eraseDups.filterMap (fun ch =>
    match cget (importStore d) (ch, .clientState) with
    | some (.client c) => some (ch, c)
    | _ => none)

/-- relayers: `RegisterRelayers` for every entry in document order (a later entry of the same address overwrites). -/
def importedRegistry (d : GenDoc) : Registry := d.relayers.foldl register []

/-- start (or restart) of the client sub-module from a document: refused if it does not validate; otherwise clients
and registry are exactly what the import wrote (packet state is imported from the untouched packet section). -/
def startFrom (st : State) (d : GenDoc) : State × Bool :=
  if d.valid then ({ st with self := d.native, clients := importedClients d, reg := importedRegistry d }, true)
  else (st, false)

def init (self : Str) : State :=
  { self := self, reg := [], clients := [], receipts := [], commits := [], acks := [] }

end TM.Auth
