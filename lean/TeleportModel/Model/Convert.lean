import TeleportModel.Base.Util
/-
Model of the coin ⇄ ERC-20 conversion of x/aggregate (C11).

Transcribed, in the order the code checks things:
  * x/aggregate/types/msg.go          `MsgConvertCoin.ValidateBasic`, `MsgConvertERC20.ValidateBasic`
                                      (with `ValidateAggregateDenom`, ibc-go `ValidateIBCDenom`, sdk `ValidateDenom`,
                                       go-ethereum `IsHexAddress` / `HexToAddress`)
  * x/aggregate/keeper/mint.go        `MintingEnabled`
  * x/aggregate/keeper/token_pairs.go `GetTokenPairID` (hex-address branch!), `GetTokenPair`, `DeleteTokenPair`
  * x/aggregate/keeper/msg_server.go  `ConvertCoin`, `ConvertERC20`, `convertCoinNativeCoin`, `convertERC20NativeCoin`,
                                      `convertERC20NativeToken`, `convertCoinNativeERC20`, `balanceOf`, `monitorApprovalEvent`
  * x/aggregate/keeper/evm.go         `CallEVM` (revert ⇒ error)
  * cosmos-sdk v0.45.2 x/bank         `SendCoins` / `subUnlockedCoins` / `addCoins` / `MintCoins` / `BurnCoins` /
                                      `SendCoinsFromModuleToAccount` (blocked check) / `GetBalance` (panics on an invalid
                                      denomination) / `sdk.Int` 256-bit overflow panics
  * baseapp message atomicity         `deliver…` : error or panic ⇒ nothing is written

Token contracts are a parameter: `B : Addr → Behaviour σ` over an opaque contract state `σ`.  The keeper only ever
sees what the contract *reports* (`balanceOf`) and whether calls succeed; nothing else is assumed in the model.
Core Lean only.
-/
namespace TM.Convert

abbrev Denom := String
/-- 20-byte address (bank account = EVM address, same bytes) as 40 lower-case hex digits. -/
abbrev Addr := String
abbrev Id := String

/-- largest value of `sdk.Int` (maxBitLen = 256) and of `uint256`. -/
def maxUint : Nat := 2 ^ 256 - 1

/-- `authtypes.NewModuleAddress("aggregate")` = `types.ModuleAddress`. -/
def moduleAddr : Addr := "ee3c65b5c7f4dd0ebed8bf046725e273e3eeed3c"

/-! ### strings: hex addresses and denominations -/

def isHexChar (c : Char) : Bool :=
  c.isDigit || (decide ('a' ≤ c) && decide (c ≤ 'f')) || (decide ('A' ≤ c) && decide (c ≤ 'F'))

def strip0x : List Char → List Char
  | '0' :: 'x' :: r => r
  | '0' :: 'X' :: r => r
  | cs => cs

/-- go-ethereum `common.IsHexAddress`. -/
def isHexAddress (s : String) : Bool :=
  let r := strip0x s.toList
  r.length == 40 && r.all isHexChar

/-- `common.HexToAddress` on a string accepted by `IsHexAddress` (canonical lower case). -/
def hexToAddr (s : String) : Addr := String.ofList ((strip0x s.toList).map Char.toLower)

/-- cosmos-sdk denom regexp `[a-zA-Z][a-zA-Z0-9/:._-]{2,127}`. -/
def denomTail (c : Char) : Bool := c.isAlphanum || c == '/' || c == ':' || c == '.' || c == '_' || c == '-'
def validDenom (d : Denom) : Bool :=
  match d.toList with
  | [] => false
  | c :: cs => c.isAlpha && cs.all denomTail && decide (2 ≤ cs.length) && decide (cs.length ≤ 127)

/-- `strings.SplitN(s, "/", 2)`. -/
def splitSlash : List Char → List Char × Option (List Char)
  | [] => ([], none)
  | c :: cs =>
    if c == '/' then ([], some cs)
    else match splitSlash cs with
      | (a, b) => (c :: a, b)

/-- `types.ValidateAggregateDenom`: `aggregate/<hex address>`. -/
def validAggregateDenom (d : Denom) : Bool :=
  match splitSlash d.toList with
  | (pre, some rest) => pre == "aggregate".toList && isHexAddress (String.ofList rest)
  | _ => false

def isSpace (c : Char) : Bool := c == ' ' || c == '\t' || c == '\n' || c == '\r' || c.toNat == 11 || c.toNat == 12

/-- ibc-go v3 `transfertypes.ValidateIBCDenom` (`ParseHexHash`: hex of a 32-byte hash). -/
def validIBCDenom (d : Denom) : Bool :=
  validDenom d &&
  (match splitSlash d.toList with
   | (pre, none) => !(pre == "ibc".toList)
   | (pre, some rest) =>
     if pre == "ibc".toList then
       !(rest.all isSpace) && rest.all isHexChar && rest.length == 64
     else true)

/-! ### state -/

inductive Owner where
  | unspecified | module | external
  deriving Repr, DecidableEq

structure Pair where
  addr : Addr
  denoms : List Denom
  enabled : Bool
  owner : Owner
  deriving Repr, DecidableEq

/-- `TokenPair.GetID` = sha256(ERC20Address | Denoms[0]); the hash is replaced by its (collision-free) pre-image.
`none` = index-out-of-range panic on an empty `Denoms`. -/
def Pair.id? (p : Pair) : Option Id :=
  match p.denoms with
  | [] => none
  | d :: _ => some (p.addr ++ "|" ++ d)

structure Bank where
  bal : Addr → Denom → Nat
  supply : Denom → Nat
  blocked : Addr → Bool
  sendEnabled : Denom → Bool

/-- Result of one EVM call into a token contract. `val` is the ABI-decoded boolean return value (`none` = not
decodable), `approval` tells whether the receipt contains an `Approval(address,address,uint256)` log. -/
inductive Call (σ : Type) where
  | revert
  | ret (st : σ) (val : Option Bool) (approval : Bool)

/-- What a token contract can do when called.  Completely arbitrary functions. -/
structure Behaviour (σ : Type) where
  balanceOf : σ → Addr → Option Nat          -- `none`: the call fails / is not decodable (keeper's `balanceOf` returns nil)
  totalSupply : σ → Nat                      -- never used by the keeper; only by the specification
  transfer : σ → (caller to : Addr) → Nat → Call σ
  mint : σ → (caller to : Addr) → Nat → Call σ
  burnCoins : σ → (caller fromA : Addr) → Nat → Call σ

structure World (σ : Type) where
  params : String → Bool            -- x/params subspace "aggregate": parameter store key ↦ stored value
  pairs : Id → Option Pair          -- KeyPrefixTokenPair
  byErc20 : Addr → Option Id        -- KeyPrefixTokenPairByERC20
  byDenom : Denom → Option Id       -- KeyPrefixTokenPairByDenom
  bank : Bank
  tok : Addr → σ                    -- storage of the contract at an address
  code : Addr → Bool                -- account exists and `IsContract()`

/-! ### parameters (x/aggregate/types/params.go)

The x/params store is addressed BY KEY (that is how a governance `ParameterChangeProposal` writes it); the keeper's
`GetParams` fills the fields of `Params` through `ParamSetPairs`, which binds each key to one field. -/

def keyEnableAggregate : String := "EnableAggregate"     -- ParamStoreKeyEnableAggregate
def keyEnableEVMHook : String := "EnableEVMHook"         -- ParamStoreKeyEnableEVMHook

/-- `Params.ParamSetPairs`: (store key, field). -/
def paramPairs : List (String × String) :=
  [(keyEnableAggregate, "EnableAggregate"), (keyEnableEVMHook, "EnableEVMHook")]

/-- the store key a field of `Params` is read from / written to -/
def keyOfField (field : String) : String :=
  match paramPairs.find? (fun kf => kf.2 == field) with
  | some kf => kf.1
  | none => ""

/-- `GetParams(ctx).EnableAggregate` -/
def World.enabled {σ : Type} (w : World σ) : Bool := w.params (keyOfField "EnableAggregate")

/-- `GetParams(ctx).EnableEVMHook` (no behaviour depends on it: `PostTxProcessing` is a stub) -/
def World.evmHook {σ : Type} (w : World σ) : Bool := w.params (keyOfField "EnableEVMHook")

def World.setParam {σ : Type} (w : World σ) (key : String) (b : Bool) : World σ :=
  { w with params := fun k => if k = key then b else w.params k }

/-! ### bank primitives (cosmos-sdk v0.45.2) -/

def Bank.setBal (b : Bank) (a : Addr) (d : Denom) (v : Nat) : Bank :=
  { b with bal := fun a' d' => if a' = a ∧ d' = d then v else b.bal a' d' }

def Bank.setSupply (b : Bank) (d : Denom) (v : Nat) : Bank :=
  { b with supply := fun d' => if d' = d then v else b.supply d' }

/-- `subUnlockedCoins` for one coin (no vesting/locked coins). -/
def Bank.sub (b : Bank) (a : Addr) (d : Denom) (amt : Nat) : Outcome Bank :=
  if !(validDenom d && decide (0 < amt)) then .err "sdk:10"          -- ErrInvalidCoins
  else if b.bal a d < amt then .err "sdk:5"                          -- ErrInsufficientFunds
  else .ok (b.setBal a d (b.bal a d - amt))

/-- `addCoins` for one coin. -/
def Bank.add (b : Bank) (a : Addr) (d : Denom) (amt : Nat) : Outcome Bank :=
  if !(validDenom d && decide (0 < amt)) then .err "sdk:10"
  else if b.bal a d + amt > maxUint then .panic "Int overflow"
  else .ok (b.setBal a d (b.bal a d + amt))

/-- `SendCoins`. -/
def Bank.send (b : Bank) (src dst : Addr) (d : Denom) (amt : Nat) : Outcome Bank := do
  let b1 ← b.sub src d amt
  b1.add dst d amt

/-- `SendCoinsFromModuleToAccount` (module = aggregate). -/
def Bank.sendFromModule (b : Bank) (dst : Addr) (d : Denom) (amt : Nat) : Outcome Bank :=
  if b.blocked dst then .err "sdk:4" else b.send moduleAddr dst d amt    -- ErrUnauthorized

/-- `MintCoins` into the aggregate module account. -/
def Bank.mint (b : Bank) (d : Denom) (amt : Nat) : Outcome Bank := do
  let b1 ← b.add moduleAddr d amt
  if b1.supply d + amt > maxUint then .panic "Int overflow"
  else .ok (b1.setSupply d (b1.supply d + amt))

/-- `BurnCoins` from the aggregate module account. -/
def Bank.burn (b : Bank) (d : Denom) (amt : Nat) : Outcome Bank := do
  let b1 ← b.sub moduleAddr d amt
  if b1.supply d < amt then .panic "negative coin amount"
  else .ok (b1.setSupply d (b1.supply d - amt))

/-- `GetBalance`: `sdk.NewCoin(denom, 0)` panics on an invalid denomination without a stored balance. -/
def Bank.getBalance (b : Bank) (a : Addr) (d : Denom) : Outcome Nat :=
  if !validDenom d then .panic "invalid denom" else .ok (b.bal a d)

/-! ### registry lookups (token_pairs.go) -/

variable {σ : Type}

/-- `GetTokenPairID`: a token string that *looks like a hex address* is looked up in the ERC-20 index, whatever it is. -/
def World.pairId (w : World σ) (token : String) : Option Id :=
  if isHexAddress token then w.byErc20 (hexToAddr token) else w.byDenom token

/-- `DeleteTokenPair`: `none` = `GetID` panics (empty `Denoms`). -/
def World.deletePair (w : World σ) (p : Pair) : Option (World σ) :=
  match p.id? with
  | none => none
  | some id =>
    some { w with
      pairs := fun i => if i = id then none else w.pairs i
      byErc20 := fun a => if a = p.addr then none else w.byErc20 a
      byDenom := fun d => if p.denoms.contains d then none else w.byDenom d }

/-- `MintingEnabled(ctx, sender, receiver, token, denom)`. -/
def mintingEnabled (w : World σ) (sender receiver : Addr) (token denom : String) : Outcome Pair :=
  if !w.enabled then .err "aggregate:2"
  else
    let id := w.pairId token
    let denomId := w.pairId denom
    if denomId ≠ id then .err "aggregate:4"
    else match id with
      | none => .err "aggregate:4"
      | some i =>
        match w.pairs i with
        | none => .err "aggregate:4"
        | some pair =>
          if !pair.enabled then .err "aggregate:2"
          else if w.bank.blocked receiver then .err "sdk:4"
          else if sender ≠ receiver && !w.bank.sendEnabled denom then .err "bank:5"
          else .ok pair

/-! ### EVM calls -/

/-- keeper `balanceOf`; `none` models the nil `*big.Int` that the caller dereferences (panic). -/
def balOf (B : Addr → Behaviour σ) (w : World σ) (c a : Addr) : Option Nat := (B c).balanceOf (w.tok c) a

def World.setTok (w : World σ) (c : Addr) (st : σ) : World σ :=
  { w with tok := fun a => if a = c then st else w.tok a }

/-! ### the four conversion paths (msg_server.go) -/

/-- case 1.1 `convertCoinNativeCoin`: escrow coins, mint tokens to the receiver, check the receiver's token balance. -/
def convertCoinNativeCoin (B : Addr → Behaviour σ) (w : World σ) (pair : Pair) (denom : Denom) (amt : Nat)
    (receiver sender : Addr) : Outcome (World σ) :=
  let c := pair.addr
  let before := balOf B w c receiver
  match w.bank.send sender moduleAddr denom amt with
  | .err e => .err e
  | .panic s => .panic s
  | .ok bank1 =>
    let w1 := { w with bank := bank1 }
    match (B c).mint (w1.tok c) moduleAddr receiver amt with
    | .revert => .err "evm:15"
    | .ret st _ _ =>
      let w2 := w1.setTok c st
      match before, balOf B w2 c receiver with
      | some b0, some b1 => if b1 ≠ b0 + amt then .err "aggregate:7" else .ok w2
      | _, _ => .panic "nil balance"

/-- case 1.2 `convertERC20NativeCoin`: burn the sender's tokens, unescrow coins, check both balances. -/
def convertERC20NativeCoin (B : Addr → Behaviour σ) (w : World σ) (pair : Pair) (denom : Denom) (amt : Nat)
    (receiver sender : Addr) : Outcome (World σ) :=
  let c := pair.addr
  match w.bank.getBalance receiver denom with
  | .err e => .err e
  | .panic s => .panic s
  | .ok coin0 =>
    let tok0 := balOf B w c sender
    match (B c).burnCoins (w.tok c) moduleAddr sender amt with
    | .revert => .err "evm:15"
    | .ret st _ _ =>
      let w1 := w.setTok c st
      match w1.bank.sendFromModule receiver denom amt with
      | .err e => .err e
      | .panic s => .panic s
      | .ok bank2 =>
        let w2 := { w1 with bank := bank2 }
        if w2.bank.bal receiver denom ≠ coin0 + amt then .err "aggregate:7"
        else match tok0, balOf B w2 c sender with
          | some t0, some t1 =>
            -- `big.Int.Sub` may go negative; then it can never equal the reported balance
            if t0 < amt ∨ t1 ≠ t0 - amt then .err "aggregate:7" else .ok w2
          | _, _ => .panic "nil balance"

/-- case 2.1 `convertERC20NativeToken`: the sender transfers tokens to the module, vouchers are minted and sent. -/
def convertERC20NativeToken (B : Addr → Behaviour σ) (w : World σ) (pair : Pair) (denom : Denom) (amt : Nat)
    (receiver sender : Addr) : Outcome (World σ) :=
  let c := pair.addr
  match w.bank.getBalance receiver denom with
  | .err e => .err e
  | .panic s => .panic s
  | .ok coin0 =>
    let tok0 := balOf B w c moduleAddr
    match (B c).transfer (w.tok c) sender moduleAddr amt with
    | .revert => .err "evm:15"
    | .ret _ none _ => .err "undefined:1"
    | .ret _ (some false) _ => .err "sdk:35"                         -- ErrLogic
    | .ret st (some true) approval =>
      let w1 := w.setTok c st
      match tok0, balOf B w1 c moduleAddr with
      | some t0, some t1 =>
        if t1 ≠ t0 + amt then .err "aggregate:7"
        else match w1.bank.mint denom amt with
          | .err e => .err e
          | .panic s => .panic s
          | .ok bank2 =>
            match bank2.sendFromModule receiver denom amt with
            | .err e => .err e
            | .panic s => .panic s
            | .ok bank3 =>
              let w3 := { w1 with bank := bank3 }
              if w3.bank.bal receiver denom ≠ coin0 + amt then .err "aggregate:7"
              else if approval then .err "aggregate:8"
              else .ok w3
      | _, _ => .panic "nil balance"

/-- case 2.2 `convertCoinNativeERC20`: escrow vouchers, the module transfers tokens to the receiver, burn vouchers.
(With fixes/C11-escrow-postcheck.diff: the module's own token balance must have fallen by exactly the amount.) -/
def convertCoinNativeERC20 (B : Addr → Behaviour σ) (w : World σ) (pair : Pair) (denom : Denom) (amt : Nat)
    (receiver sender : Addr) : Outcome (World σ) :=
  let c := pair.addr
  let tok0 := balOf B w c receiver
  let esc0 := balOf B w c moduleAddr
  match w.bank.send sender moduleAddr denom amt with
  | .err e => .err e
  | .panic s => .panic s
  | .ok bank1 =>
    let w1 := { w with bank := bank1 }
    match (B c).transfer (w1.tok c) moduleAddr receiver amt with
    | .revert => .err "evm:15"
    | .ret _ none _ => .err "undefined:1"
    | .ret _ (some false) _ => .err "sdk:35"
    | .ret st (some true) approval =>
      let w2 := w1.setTok c st
      match tok0, balOf B w2 c receiver with
      | some t0, some t1 =>
        if t1 ≠ t0 + amt then .err "aggregate:7"
        else match esc0, balOf B w2 c moduleAddr with
          | some e0, some e1 =>
            -- `big.Int.Sub` may go negative; then it can never equal the reported balance
            if e0 < amt ∨ e1 ≠ e0 - amt then .err "aggregate:7"
            else match w2.bank.burn denom amt with
              | .err e => .err e
              | .panic s => .panic s
              | .ok bank3 =>
                if approval then .err "aggregate:8" else .ok { w2 with bank := bank3 }
          | _, _ => .panic "nil balance"
      | _, _ => .panic "nil balance"

/-! ### messages: stateless validation (stage 1) and the handlers' own parsing (stage 2) -/

/-- What a prefix-agnostic bech32 decode of an address string yields (external primitive: computed by the harness
with its own decoder): human readable part and payload (lower-case hex). -/
structure Bech32 where
  hrp : String
  bytes : Addr
  deriving Repr, DecidableEq

/-- `Bech32PrefixAccAddr` (cmd/config/config.go) -/
def chainPrefix : String := "teleport"

/-- `sdk.AccAddressFromBech32`: decodable, the CHAIN's prefix, 1 … 255 bytes (`VerifyAddressFormat`). -/
def accAddressFromBech32 (r : Option Bech32) : Option Addr :=
  match r with
  | none => none
  | some b => if b.hrp = chainPrefix ∧ 0 < b.bytes.length ∧ b.bytes.length ≤ 510 then some b.bytes else none


/-- `MsgConvertCoin`. `sender = none`: not a valid bech32 address. `receiver` is the raw string of the message. -/
structure MsgCoin where
  denom : Denom
  amount : Int
  receiver : String
  sender : Option Bech32

/-- `MsgConvertERC20`. `receiver`: what a prefix-agnostic bech32 decode of the string yields. -/
structure MsgERC20 where
  contract : String
  amount : Int
  receiver : Option Bech32
  sender : String
  denom : Denom

/-- the account a `MsgConvertCoin` is signed by / pays from, as `sdk.AccAddressFromBech32` reads it -/
def MsgCoin.senderAddr (m : MsgCoin) : Option Addr := accAddressFromBech32 m.sender
/-- the account a `MsgConvertERC20` pays out to, as `sdk.AccAddressFromBech32` reads it -/
def MsgERC20.receiverAddr (m : MsgERC20) : Option Addr := accAddressFromBech32 m.receiver

/-- stage 1 of a delivered transaction: `MsgConvertCoin.ValidateBasic` (x/aggregate/types/msg.go) -/
def MsgCoin.validateBasic (m : MsgCoin) : Bool :=
  (validAggregateDenom m.denom || validIBCDenom m.denom) && decide (0 < m.amount) && m.senderAddr.isSome &&
  isHexAddress m.receiver

/-- stage 1: `MsgConvertERC20.ValidateBasic`; the receiver must be bech32 **of the chain's prefix**. -/
def MsgERC20.validateBasic (m : MsgERC20) : Bool :=
  isHexAddress m.contract && decide (0 < m.amount) && m.receiverAddr.isSome && isHexAddress m.sender

/-- stage 2, the handlers' own parse `addr, _ := sdk.AccAddressFromBech32(s)`: the error is dropped
("Error checked during msg validation"), a string the parse rejects becomes the EMPTY address. -/
def handlerAddr (r : Option Bech32) : Addr := (accAddressFromBech32 r).getD ""

/-- What happened to a delivered message. -/
inductive Res where
  | converted            -- handler returned a response
  | cleaned              -- self-destructed contract: pair deleted, `nil, nil` returned (persisted)
  | rejected (cls : String)   -- error (nothing written)
  | panicked             -- panic recovered by baseapp (nothing written)
  deriving Repr, DecidableEq

/-- `Keeper.ConvertCoin` after `ValidateBasic` (sender, receiver already decoded). -/
def handleCoin (B : Addr → Behaviour σ) (w : World σ) (denom : Denom) (amt : Nat) (receiver sender : Addr) :
    Outcome (World σ × Bool) :=
  match mintingEnabled w sender receiver denom denom with
  | .err e => .err e
  | .panic s => .panic s
  | .ok pair =>
    if !w.code pair.addr then
      match w.deletePair pair with
      | none => .panic "GetID"
      | some w' => .ok (w', true)
    else match pair.owner with
      | .module => (convertCoinNativeCoin B w pair denom amt receiver sender).bind (fun w' => .ok (w', false))
      | .external => (convertCoinNativeERC20 B w pair denom amt receiver sender).bind (fun w' => .ok (w', false))
      | .unspecified => .err "aggregate:6"

/-- `Keeper.ConvertERC20` after `ValidateBasic`. -/
def handleERC20 (B : Addr → Behaviour σ) (w : World σ) (contract : String) (denom : Denom) (amt : Nat)
    (receiver sender : Addr) : Outcome (World σ × Bool) :=
  match mintingEnabled w sender receiver contract denom with
  | .err e => .err e
  | .panic s => .panic s
  | .ok pair =>
    if !w.code pair.addr then
      match w.deletePair pair with
      | none => .panic "GetID"
      | some w' => .ok (w', true)
    else match pair.owner with
      | .module => (convertERC20NativeCoin B w pair denom amt receiver sender).bind (fun w' => .ok (w', false))
      | .external => (convertERC20NativeToken B w pair denom amt receiver sender).bind (fun w' => .ok (w', false))
      | .unspecified => .err "aggregate:6"

def finish (w : World σ) : Outcome (World σ × Bool) → World σ × Res
  | .ok (w', false) => (w', .converted)
  | .ok (w', true) => (w', .cleaned)
  | .err e => (w, .rejected e)
  | .panic _ => (w, .panicked)

/-- A delivered `MsgConvertCoin`: `ValidateBasic`, then the handler (with its own parse of the sender), and baseapp's
all-or-nothing write. -/
def deliverCoin (B : Addr → Behaviour σ) (w : World σ) (m : MsgCoin) : World σ × Res :=
  if !m.validateBasic then (w, .rejected "basic")
  else finish w (handleCoin B w m.denom m.amount.toNat (hexToAddr m.receiver) (handlerAddr m.sender))

/-- A delivered `MsgConvertERC20`. -/
def deliverERC20 (B : Addr → Behaviour σ) (w : World σ) (m : MsgERC20) : World σ × Res :=
  if !m.validateBasic then (w, .rejected "basic")
  else finish w (handleERC20 B w m.contract m.denom m.amount.toNat (handlerAddr m.receiver) (hexToAddr m.sender))

/-! ### the ICS-20 receive hook (x/aggregate/ibc_middleware.go, keeper/ibc_hook.go)

`IBCMiddleware.OnRecvPacket` = the transfer application's `OnRecvPacket`, then — when its acknowledgement is a
success — `Keeper.OnRecvPacket`: a best-effort `ConvertCoin(voucher, receiver → receiver)` on a cache context that is
written only when the conversion returns no error; the transfer acknowledgement is returned unchanged. ibc-go core
runs the whole callback on a cache context written iff the acknowledgement is a success; a panic aborts the
transaction. Only packets whose token comes from the sending chain are modelled (the transfer application mints the
voucher `ibc/<hash of port/channel/base denom>`; the hash is computed by the harness). -/

/-- ibc-go transfer `OnRecvPacket`, "sender chain is the source": `MintCoins(transfer, voucher)` then
`SendCoinsFromModuleToAccount(transfer, receiver, voucher)`. -/
def Bank.ibcCredit (b : Bank) (recv : Addr) (v : Denom) (amt : Nat) : Outcome Bank :=
  if !(validDenom v && decide (0 < amt)) then .err "sdk:10"
  else if b.supply v + amt > maxUint then .panic "Int overflow"
  else if b.blocked recv then .err "sdk:4"
  else if b.bal recv v + amt > maxUint then .panic "Int overflow"
  else .ok ((b.setBal recv v (b.bal recv v + amt)).setSupply v (b.supply v + amt))

/-- An ICS-20 packet as far as it matters here. `receiver = none`: not a bech32 address. -/
structure IcsPacket where
  receiver : Option Addr
  voucher : Denom          -- the voucher denomination the transfer application mints for the packet's denom
  amount : Int

inductive IcsRes where
  | errAck        -- error acknowledgement of the transfer application: core writes nothing
  | kept          -- vouchers delivered, no conversion (denomination not registered, or the conversion failed: rolled back)
  | converted     -- vouchers delivered and converted for the receiver
  | cleaned       -- vouchers delivered; the pair of a contract without code was deleted
  | panicked      -- a panic aborts the transaction
  deriving Repr, DecidableEq

/-- `Keeper.OnRecvPacket` on the state the transfer application left (`none` = panic).
`IsDenomRegistered` looks at the denomination index only; `ConvertCoin` is called without `ValidateBasic`,
sender = receiver. The cache context makes the conversion atomic. -/
def hookConvert (B : Addr → Behaviour σ) (w1 : World σ) (recv : Addr) (v : Denom) (amt : Nat) :
    Option (World σ × IcsRes) :=
  if (w1.byDenom v).isNone then some (w1, .kept)
  else match handleCoin B w1 v amt recv recv with
    | .ok (w2, false) => some (w2, .converted)
    | .ok (w2, true) => some (w2, .cleaned)
    | .err _ => some (w1, .kept)
    | .panic _ => none

/-- the world after the transfer application alone -/
def afterTransfer (w : World σ) (b1 : Bank) : World σ := { w with bank := b1 }

/-- A received ICS-20 packet: `transferRecv ; tryConvert`. -/
def ics20Recv (B : Addr → Behaviour σ) (w : World σ) (p : IcsPacket) : World σ × IcsRes :=
  if p.amount ≤ 0 then (w, .errAck)
  else match p.receiver with
    | none => (w, .errAck)
    | some r =>
      match w.bank.ibcCredit r p.voucher p.amount.toNat with
      | .err _ => (w, .errAck)
      | .panic _ => (w, .panicked)
      | .ok b1 =>
        match hookConvert B (afterTransfer w b1) r p.voucher p.amount.toNat with
        | none => (w, .panicked)
        | some x => x

/-! ### histories: conversions interleaved with everything else users / governance can do to the same state -/

inductive Action where
  | coin (m : MsgCoin)
  | erc20 (m : MsgERC20)
  | ics20 (p : IcsPacket)                              -- a received ICS-20 packet (transfer + aggregate hook)
  | userTransfer (c caller to : Addr) (amt : Nat)      -- any account calls `transfer` on a token contract
  | userMint (c caller to : Addr) (amt : Nat)          -- any account calls `mint`
  | userBurn (c caller fromA : Addr) (amt : Nat)       -- any account calls `burnCoins`
  | bankSend (src dst : Addr) (d : Denom) (amt : Nat)  -- bank `MsgSend`
  | setEnabled (b : Bool)                              -- `keeper.SetParams` with EnableAggregate := b (writes every field through its key)
  | setParamByKey (key : String) (b : Bool)            -- governance `ParameterChangeProposal` (subspace "aggregate", key, value)
  | toggle (token : String)                            -- `ToggleRelay`
  | setSendEnabled (d : Denom) (b : Bool)
  | selfdestruct (c : Addr)
  | addCoin (d : Denom) (c : Addr)                     -- governance `AddCoin`: one more denomination for the pair of contract `c`
  | updateERC20 (old new : Addr) (metaOk : Bool)       -- governance `UpdateTokenPairERC20`; `metaOk`: the bank metadata / `QueryERC20` comparison passes
  | restart                                            -- node restart through a genesis export / import of the module

def applyCall (w : World σ) (c : Addr) : Call σ → World σ
  | .revert => w
  | .ret st _ _ => w.setTok c st

/-- bank `MsgSend`: blocked receivers and disabled denominations are refused. -/
def bankMsgSend (b : Bank) (src dst : Addr) (d : Denom) (amt : Nat) : Bank :=
  if !b.sendEnabled d || b.blocked dst then b
  else match b.send src dst d amt with
    | .ok b' => b'
    | _ => b

def toggleRelay (w : World σ) (token : String) : World σ :=
  match w.pairId token with
  | none => w
  | some i =>
    match w.pairs i with
    | none => w
    | some p =>
      match p.id? with
      | none => w
      | some i' => { w with pairs := fun j => if j = i' then some { p with enabled := !p.enabled } else w.pairs j }

/-! ### governance operations that rewrite a stored pair (keeper/proposals.go), as functions on the pair record -/

/-- `AddCoin` on the record: `pair.Denoms = append(pair.Denoms, base)`; every other field as stored. -/
def addCoinPair (p : Pair) (d : Denom) : Pair := { p with denoms := p.denoms ++ [d] }

/-- `UpdateTokenPairERC20` on the record: `pair.ERC20Address = new`; every other field as stored. -/
def updatePair (p : Pair) (new : Addr) : Pair := { p with addr := new }

/-- `ToggleRelay` on the record. -/
def togglePair (p : Pair) : Pair := { p with enabled := !p.enabled }

/-- `Keeper.AddCoin` (metadata name = base denomination; supply / EVM-denom / metadata checks are the caller's):
module enabled → denomination not registered → pair of the contract found → id unchanged → pair and index written. -/
def addCoin (w : World σ) (d : Denom) (c : Addr) : World σ :=
  if !w.enabled then w
  else if (w.byDenom d).isSome then w
  else match w.byErc20 c with
    | none => w
    | some i =>
      match w.pairs i with
      | none => w
      | some p =>
        if (addCoinPair p d).id? ≠ some i then w
        else { w with pairs := fun j => if j = i then some (addCoinPair p d) else w.pairs j
                      byDenom := fun e => if e = d then some i else w.byDenom e }

/-- `Keeper.UpdateTokenPairERC20`: pair of `old` found → `new` not registered → metadata comparison → the pair is
deleted, re-pointed, stored under its new id and indexed again (every denomination, the new address). -/
def updateERC20 (w : World σ) (old new : Addr) (metaOk : Bool) : World σ :=
  match w.byErc20 old with
  | none => w
  | some i =>
    match w.pairs i with
    | none => w
    | some p =>
      if (w.byErc20 new).isSome then w
      else if !metaOk then w
      else match w.deletePair p, (updatePair p new).id? with
        | some w1, some i' =>
          { w1 with pairs := fun j => if j = i' then some (updatePair p new) else w1.pairs j
                    byErc20 := fun a => if a = new then some i' else w1.byErc20 a
                    byDenom := fun e => if p.denoms.contains e then some i' else w1.byDenom e }
        | _, _ => w

def step (B : Addr → Behaviour σ) (w : World σ) : Action → World σ
  | .coin m => (deliverCoin B w m).1
  | .erc20 m => (deliverERC20 B w m).1
  | .ics20 p => (ics20Recv B w p).1
  | .userTransfer c caller to amt => if w.code c then applyCall w c ((B c).transfer (w.tok c) caller to amt) else w
  | .userMint c caller to amt => if w.code c then applyCall w c ((B c).mint (w.tok c) caller to amt) else w
  | .userBurn c caller fromA amt => if w.code c then applyCall w c ((B c).burnCoins (w.tok c) caller fromA amt) else w
  | .bankSend s d dn amt => { w with bank := bankMsgSend w.bank s d dn amt }
  | .setEnabled b => w.setParam (keyOfField "EnableAggregate") b
  | .setParamByKey key b => w.setParam key b
  | .toggle t => toggleRelay w t
  | .setSendEnabled d b => { w with bank := { w.bank with sendEnabled := fun d' => if d' = d then b else w.bank.sendEnabled d' } }
  | .selfdestruct c => { w with code := fun a => if a = c then false else w.code a }
  -- x/aggregate/genesis.go: ExportGenesis = (params, every stored pair); InitGenesis stores the params and every pair
  -- as exported (with its Enabled flag) and rebuilds both indexes from it: the identity on a consistent registry
  | .restart => w
  | .addCoin d c => addCoin w d c
  | .updateERC20 old new metaOk => updateERC20 w old new metaOk

def run (B : Addr → Behaviour σ) (w : World σ) : List Action → World σ
  | [] => w
  | a :: as => run B (step B w a) as

/-! ### the token contracts of the repository (syscontracts/contracts_src), used by the driver and for non-vacuity -/

inductive Kind where
  | minterBurner          -- ERC20MinterBurnerDecimals (module-owned pairs; also the honest external token)
  | directBalance         -- ERC20DirectBalanceManipulation: half of every transfer goes to a thief (fee on transfer)
  | maliciousDelayed      -- ERC20MaliciousDelayed: every transfer emits an Approval for a thief
  | doubleDebit           -- hand-assembled test token: transfer debits twice the amount from the caller (extra → sink)
  | feeOnReceive          -- hand-assembled test token: transfer debits the amount plus 1 from the caller (extra → sink)
  | programmable          -- hand-assembled test token whose `balanceOf` / `transfer` behaviour is set through control slots
  deriving Repr, DecidableEq

def thief : Addr := "4dc6ac40af078661fc43823086e1513635eeab14"
def zeroAddr : Addr := "0000000000000000000000000000000000000000"

structure TokState where
  kind : Kind
  bal : Addr → Nat
  supply : Nat
  admin : Addr → Bool        -- MINTER_ROLE / BURNER_ROLE holders
  -- control slots of the programmable token (harness/c11_pg_test.go)
  readMode : Nat := 0        -- `balanceOf` now: 0 honest | 1 revert | 2 short data | 3 honest + trailing junk | 4 empty return
  readNext : Nat := 0        -- … installed by the next executed `transfer` (then reset to honest)
  readWho : Addr := ""       -- "" = the mode applies to every account, else only to this one
  xferMode : Nat := 0        -- the next `transfer`: 0 honest | 1 revert | 2 true, no effect | 3 false, with effect |
                             --   4 fee of 1 | 5 effect, empty return | 6 effect, true + trailing junk | 7 false, no effect

def TokState.move (t : TokState) (src dst : Addr) (amt : Nat) : Option TokState :=
  if dst = zeroAddr ∨ src = zeroAddr ∨ t.bal src < amt then none
  else
    let b1 : Addr → Nat := fun a => if a = src then t.bal src - amt else t.bal a
    some { t with bal := fun a => if a = dst then b1 dst + amt else b1 a }

def TokState.mintTo (t : TokState) (dst : Addr) (amt : Nat) : Option TokState :=
  if dst = zeroAddr ∨ t.supply + amt > maxUint then none
  else some { t with supply := t.supply + amt, bal := fun a => if a = dst then t.bal dst + amt else t.bal a }

def TokState.burnFrom (t : TokState) (src : Addr) (amt : Nat) : Option TokState :=
  if src = zeroAddr ∨ t.bal src < amt ∨ t.supply < amt then none     -- (balances never exceed the supply in the contract)
  else some { t with supply := t.supply - amt, bal := fun a => if a = src then t.bal src - amt else t.bal a }

def ofOpt (o : Option TokState) (val : Option Bool) (approval : Bool) : Call TokState :=
  match o with
  | none => .revert
  | some t => .ret t val approval

/-- the hand-assembled tokens (harness/c11_dd_test.go): caller −(amt+extra), then sink +extra, then `to` +amt
(three storage writes in this order; the sink is the thief address); no zero-address checks, no events. -/
def advTransfer (t : TokState) (caller to : Addr) (amt extra : Nat) : Call TokState :=
  if t.bal caller < amt + extra then .revert
  else
    let b1 : Addr → Nat := fun a => if a = caller then t.bal caller - (amt + extra) else t.bal a
    let b2 : Addr → Nat := fun a => if a = thief then b1 thief + extra else b1 a
    .ret { t with bal := fun a => if a = to then b2 to + amt else b2 a } (some true) false

/-- what the programmable token answers to `balanceOf(a)`: `none` = revert / undecodable return data -/
def pgBalanceOf (t : TokState) (a : Addr) : Option Nat :=
  let m := if t.readWho = "" ∨ t.readWho = a then t.readMode else 0
  if m = 1 ∨ m = 2 ∨ m = 4 then none else some (t.bal a)

/-- the programmable token's `transfer`: unless it reverts it switches the read phase and consumes its mode -/
def pgTransfer (t : TokState) (caller to : Addr) (amt : Nat) : Call TokState :=
  let m := t.xferMode
  if m = 1 then .revert
  else
    let t1 := { t with readMode := t.readNext, readNext := 0, xferMode := 0 }
    let val : Option Bool := if m = 3 ∨ m = 7 then some false else if m = 5 then none else some true
    if m = 2 ∨ m = 7 then .ret t1 val false
    else match advTransfer t1 caller to amt (if m = 4 then 1 else 0) with
      | .revert => .revert
      | .ret t2 _ _ => .ret t2 val false

def repoTransfer (t : TokState) (caller to : Addr) (amt : Nat) : Call TokState :=
  match t.kind with
  | .programmable => pgTransfer t caller to amt
  | .minterBurner => ofOpt (t.move caller to amt) (some true) false
  | .directBalance =>
    let half := amt / 2
    ofOpt ((t.move caller thief (amt - half)).bind (fun t1 => t1.move caller to half)) (some true) false
  | .maliciousDelayed =>
    if to = zeroAddr then .revert else ofOpt (t.move caller to amt) (some true) true
  | .doubleDebit => advTransfer t caller to amt amt
  | .feeOnReceive => advTransfer t caller to amt 1

/-- The behaviour of the contracts compiled in the repository (plus the hand-assembled double-debit token). -/
def repoBehaviour : Behaviour TokState where
  balanceOf := fun t a => match t.kind with
    | .programmable => pgBalanceOf t a
    | _ => some (t.bal a)
  totalSupply := fun t => t.supply
  transfer := repoTransfer
  mint := fun t caller to amt => if t.admin caller then ofOpt (t.mintTo to amt) none false else .revert
  burnCoins := fun t caller fromA amt =>
    match t.kind with
    | .minterBurner => if t.admin caller then ofOpt (t.burnFrom fromA amt) none false else .revert
    | _ => .revert       -- the preset tokens have no `burnCoins`

end TM.Convert
