import TeleportModel.Model.GenesisKv
import TeleportModel.Model.Vesting
/-
C13 — genesis export / import of the xibc, aggregate and rvesting module state.

Transcribes x/xibc/genesis.go, core/client/genesis.go + keeper (GetAllGenesisClients / IterateClients,
GetAllConsensusStates / IterateConsensusStates, GetAllClientMetadata → per-client-type ExportMetadata,
GetAllRelayers, chain name), core/packet/genesis.go + keeper (iterateHashes, IteratePacketSequence),
`GenesisState.Validate` of both sub-modules, and the InitGenesis write order; x/aggregate/genesis.go;
the parameter subspaces of aggregate and rvesting. Stored values are opaque byte blobs; the only parts
of a blob the genesis code looks at are (a) the type URL of the packed `Any` of client / consensus
states (→ client type), (b) the `address` field of an `IdentifiedRelayer`, both read here from the
proto encoding, (c) id / ERC20 address / denominations of a token pair and the results of the per-type
`Validate()` / `ValidateBasic()`, which are parameters (`Env`). `ProtoCanonical`
(unmarshal-then-marshal is the identity on stored values, also through the JSON codec) is the standing
assumption that lets a blob stand for its decoded value; it is checked by every harness run.

Described behaviour = the repaired tree: positional key parsing (commit f22d284), Tendermint
`ExportMetadata` also exports the iteration keys (fix C13-tm-iteration-keys), ETH consensus states report
client type `eth` (fix C13-eth-consensus-client-type).
-/
namespace TM.Genesis
open TM TM.GKv

/-- "chainName" -/
def kChainName : Bytes := [0x63, 0x68, 0x61, 0x69, 0x6e, 0x4e, 0x61, 0x6d, 0x65]
/-- "relayers" -/
def kRelayers : Bytes := [0x72, 0x65, 0x6c, 0x61, 0x79, 0x65, 0x72, 0x73]
/-- "clients" -/
def kClients : Bytes := [0x63, 0x6c, 0x69, 0x65, 0x6e, 0x74, 0x73]
/-- "clients/" -/
def kClientsSlash : Bytes := [0x63, 0x6c, 0x69, 0x65, 0x6e, 0x74, 0x73, 0x2f]
/-- "clientState" -/
def kClientState : Bytes := [0x63, 0x6c, 0x69, 0x65, 0x6e, 0x74, 0x53, 0x74, 0x61, 0x74, 0x65]
/-- "consensusStates/" -/
def kConsPrefix : Bytes := [0x63, 0x6f, 0x6e, 0x73, 0x65, 0x6e, 0x73, 0x75, 0x73, 0x53, 0x74, 0x61, 0x74, 0x65, 0x73, 0x2f]
/-- "consensusStates" -/
def kConsWord : Bytes := [0x63, 0x6f, 0x6e, 0x73, 0x65, 0x6e, 0x73, 0x75, 0x73, 0x53, 0x74, 0x61, 0x74, 0x65, 0x73]
/-- "/processedTime" -/
def kProcessedTime : Bytes := [0x2f, 0x70, 0x72, 0x6f, 0x63, 0x65, 0x73, 0x73, 0x65, 0x64, 0x54, 0x69, 0x6d, 0x65]
/-- "iterateConsensusStates" -/
def kIterate : Bytes := [0x69, 0x74, 0x65, 0x72, 0x61, 0x74, 0x65, 0x43, 0x6f, 0x6e, 0x73, 0x65, 0x6e, 0x73, 0x75, 0x73, 0x53, 0x74, 0x61, 0x74, 0x65, 0x73]
/-- "recentSingers" -/
def kRecent : Bytes := [0x72, 0x65, 0x63, 0x65, 0x6e, 0x74, 0x53, 0x69, 0x6e, 0x67, 0x65, 0x72, 0x73]
/-- "pendingValidators" -/
def kPending : Bytes := [0x70, 0x65, 0x6e, 0x64, 0x69, 0x6e, 0x67, 0x56, 0x61, 0x6c, 0x69, 0x64, 0x61, 0x74, 0x6f, 0x72, 0x73]
/-- "ethHeaderIndex" -/
def kEthIndex : Bytes := [0x65, 0x74, 0x68, 0x48, 0x65, 0x61, 0x64, 0x65, 0x72, 0x49, 0x6e, 0x64, 0x65, 0x78]
/-- "ethRootMain" -/
def kEthRoot : Bytes := [0x65, 0x74, 0x68, 0x52, 0x6f, 0x6f, 0x74, 0x4d, 0x61, 0x69, 0x6e]
/-- "acks" -/
def kAcks : Bytes := [0x61, 0x63, 0x6b, 0x73]
/-- "commitments" -/
def kCommitments : Bytes := [0x63, 0x6f, 0x6d, 0x6d, 0x69, 0x74, 0x6d, 0x65, 0x6e, 0x74, 0x73]
/-- "receipts" -/
def kReceipts : Bytes := [0x72, 0x65, 0x63, 0x65, 0x69, 0x70, 0x74, 0x73]
/-- "nextSequenceSend" -/
def kNextSeq : Bytes := [0x6e, 0x65, 0x78, 0x74, 0x53, 0x65, 0x71, 0x75, 0x65, 0x6e, 0x63, 0x65, 0x53, 0x65, 0x6e, 0x64]
/-- "sequences" -/
def kSequences : Bytes := [0x73, 0x65, 0x71, 0x75, 0x65, 0x6e, 0x63, 0x65, 0x73]
/-- "0x" -/
def k0x : Bytes := [0x30, 0x78]
/-- "/xibc.clients.lightclients.tendermint.v1.ClientState" -/
def urlTmClient : Bytes := [0x2f, 0x78, 0x69, 0x62, 0x63, 0x2e, 0x63, 0x6c, 0x69, 0x65, 0x6e, 0x74, 0x73, 0x2e, 0x6c, 0x69, 0x67, 0x68, 0x74, 0x63, 0x6c, 0x69, 0x65, 0x6e, 0x74, 0x73, 0x2e, 0x74, 0x65, 0x6e, 0x64, 0x65, 0x72, 0x6d, 0x69, 0x6e, 0x74, 0x2e, 0x76, 0x31, 0x2e, 0x43, 0x6c, 0x69, 0x65, 0x6e, 0x74, 0x53, 0x74, 0x61, 0x74, 0x65]
/-- "/xibc.clients.lightclients.tendermint.v1.ConsensusState" -/
def urlTmCons : Bytes := [0x2f, 0x78, 0x69, 0x62, 0x63, 0x2e, 0x63, 0x6c, 0x69, 0x65, 0x6e, 0x74, 0x73, 0x2e, 0x6c, 0x69, 0x67, 0x68, 0x74, 0x63, 0x6c, 0x69, 0x65, 0x6e, 0x74, 0x73, 0x2e, 0x74, 0x65, 0x6e, 0x64, 0x65, 0x72, 0x6d, 0x69, 0x6e, 0x74, 0x2e, 0x76, 0x31, 0x2e, 0x43, 0x6f, 0x6e, 0x73, 0x65, 0x6e, 0x73, 0x75, 0x73, 0x53, 0x74, 0x61, 0x74, 0x65]
/-- "/xibc.clients.lightclients.bsc.v1.ClientState" -/
def urlBscClient : Bytes := [0x2f, 0x78, 0x69, 0x62, 0x63, 0x2e, 0x63, 0x6c, 0x69, 0x65, 0x6e, 0x74, 0x73, 0x2e, 0x6c, 0x69, 0x67, 0x68, 0x74, 0x63, 0x6c, 0x69, 0x65, 0x6e, 0x74, 0x73, 0x2e, 0x62, 0x73, 0x63, 0x2e, 0x76, 0x31, 0x2e, 0x43, 0x6c, 0x69, 0x65, 0x6e, 0x74, 0x53, 0x74, 0x61, 0x74, 0x65]
/-- "/xibc.clients.lightclients.bsc.v1.ConsensusState" -/
def urlBscCons : Bytes := [0x2f, 0x78, 0x69, 0x62, 0x63, 0x2e, 0x63, 0x6c, 0x69, 0x65, 0x6e, 0x74, 0x73, 0x2e, 0x6c, 0x69, 0x67, 0x68, 0x74, 0x63, 0x6c, 0x69, 0x65, 0x6e, 0x74, 0x73, 0x2e, 0x62, 0x73, 0x63, 0x2e, 0x76, 0x31, 0x2e, 0x43, 0x6f, 0x6e, 0x73, 0x65, 0x6e, 0x73, 0x75, 0x73, 0x53, 0x74, 0x61, 0x74, 0x65]
/-- "/xibc.clients.lightclients.eth.v1.ClientState" -/
def urlEthClient : Bytes := [0x2f, 0x78, 0x69, 0x62, 0x63, 0x2e, 0x63, 0x6c, 0x69, 0x65, 0x6e, 0x74, 0x73, 0x2e, 0x6c, 0x69, 0x67, 0x68, 0x74, 0x63, 0x6c, 0x69, 0x65, 0x6e, 0x74, 0x73, 0x2e, 0x65, 0x74, 0x68, 0x2e, 0x76, 0x31, 0x2e, 0x43, 0x6c, 0x69, 0x65, 0x6e, 0x74, 0x53, 0x74, 0x61, 0x74, 0x65]
/-- "/xibc.clients.lightclients.eth.v1.ConsensusState" -/
def urlEthCons : Bytes := [0x2f, 0x78, 0x69, 0x62, 0x63, 0x2e, 0x63, 0x6c, 0x69, 0x65, 0x6e, 0x74, 0x73, 0x2e, 0x6c, 0x69, 0x67, 0x68, 0x74, 0x63, 0x6c, 0x69, 0x65, 0x6e, 0x74, 0x73, 0x2e, 0x65, 0x74, 0x68, 0x2e, 0x76, 0x31, 0x2e, 0x43, 0x6f, 0x6e, 0x73, 0x65, 0x6e, 0x73, 0x75, 0x73, 0x53, 0x74, 0x61, 0x74, 0x65]
/-- "/xibc.clients.tssclient.v1.ClientState" -/
def urlTssClient : Bytes := [0x2f, 0x78, 0x69, 0x62, 0x63, 0x2e, 0x63, 0x6c, 0x69, 0x65, 0x6e, 0x74, 0x73, 0x2e, 0x74, 0x73, 0x73, 0x63, 0x6c, 0x69, 0x65, 0x6e, 0x74, 0x2e, 0x76, 0x31, 0x2e, 0x43, 0x6c, 0x69, 0x65, 0x6e, 0x74, 0x53, 0x74, 0x61, 0x74, 0x65]
/-- "/xibc.clients.tssclient.v1.ConsensusState" -/
def urlTssCons : Bytes := [0x2f, 0x78, 0x69, 0x62, 0x63, 0x2e, 0x63, 0x6c, 0x69, 0x65, 0x6e, 0x74, 0x73, 0x2e, 0x74, 0x73, 0x73, 0x63, 0x6c, 0x69, 0x65, 0x6e, 0x74, 0x2e, 0x76, 0x31, 0x2e, 0x43, 0x6f, 0x6e, 0x73, 0x65, 0x6e, 0x73, 0x75, 0x73, 0x53, 0x74, 0x61, 0x74, 0x65]

/-! ## blobs -/

inductive Ty where | tm | bsc | eth | tss
  deriving DecidableEq, Repr

/-- type URL of a packed `Any` (field 1, length < 128) -/
def anyUrl : Bytes → Option Bytes
  | 0x0a :: n :: rest => if n.toNat < 128 ∧ n.toNat ≤ rest.length then some (rest.take n.toNat) else none
  | _ => none

/-- client type of a stored client state (`MustUnmarshalClientState(..).ClientType()`); `none` = does not unmarshal -/
def clientTy (blob : Bytes) : Option Ty :=
  match anyUrl blob with
  | none => none
  | some u =>
    if u = urlTmClient then some .tm else if u = urlBscClient then some .bsc
    else if u = urlEthClient then some .eth else if u = urlTssClient then some .tss else none

/-- client type reported by a stored consensus state (`ConsensusState.ClientType()`) -/
def consTy (blob : Bytes) : Option Ty :=
  match anyUrl blob with
  | none => none
  | some u =>
    if u = urlTmCons then some .tm else if u = urlBscCons then some .bsc
    else if u = urlEthCons then some .eth else if u = urlTssCons then some .tss else none

/-- `address` (field 1) of a marshalled `IdentifiedRelayer`; proto3 omits an empty string -/
def relayerAddr : Bytes → Bytes
  | 0x0a :: n :: rest => if n.toNat < 128 then rest.take n.toNat else []
  | _ => []

/-- external facts about blobs, computed by the node's own libraries -/
structure Env where
  validClient : Bytes → Bool          -- ClientState.Validate() == nil
  validCons : Bytes → Bool            -- ConsensusState.ValidateBasic() == nil
  pairId : Bytes → Bytes              -- TokenPair.GetID()
  pairErc20 : Bytes → Bytes           -- TokenPair.GetERC20Contract().Bytes()
  pairDenoms : Bytes → List Bytes     -- TokenPair.Denoms
  validPair : Bytes → Bool            -- TokenPair.Validate() == nil

/-! ## keys (host/keys.go and the light clients' store.go files) -/

abbrev Height := UInt64 × UInt64

def clientPrefix (chain : Bytes) : Bytes := kClientsSlash ++ chain ++ [slash]
def clientKey (chain path : Bytes) : Bytes := clientPrefix chain ++ path
def consPath (h : Height) : Bytes := kConsPrefix ++ (be64 h.1 ++ be64 h.2)
def ptimePath (h : Height) : Bytes := consPath h ++ kProcessedTime
def iterPath (h : Height) : Bytes := kIterate ++ (be64 h.1 ++ be64 h.2)
def heightStr (h : Height) : Bytes := toDec h.1.toNat ++ 0x2d :: toDec h.2.toNat
def signerPath (h : Height) : Bytes := kRecent ++ slash :: heightStr h

def hexNib (n : Nat) : UInt8 := if n < 10 then UInt8.ofNat (48 + n) else UInt8.ofNat (87 + n)
def hexLower (b : Bytes) : Bytes := b.flatMap (fun x => [hexNib (x.toNat / 16), hexNib (x.toNat % 16)])
/-- `fmt.Sprintf("%s/%s%d", prefix, hash, height)` with `common.Hash` printed as 0x… -/
def ethPath (pfx hash : Bytes) (h : UInt64) : Bytes := pfx ++ slash :: (k0x ++ hexLower hash ++ toDec h.toNat)

def packetKey (pfx src dst : Bytes) (seq : Nat) : Bytes :=
  joinSlash [pfx, src, dst, kSequences, toDec seq]
def nextSeqKey (src dst : Bytes) : Bytes := joinSlash [kNextSeq, src, dst]
def relayerKey (addr : Bytes) : Bytes := kRelayers ++ addr

/-! ## keeper writes -/

def setChainName (s : Store) (n : Bytes) : Store := set s kChainName n
def registerRelayer (s : Store) (blob : Bytes) : Store := set s (relayerKey (relayerAddr blob)) blob
def setClientState (s : Store) (chain blob : Bytes) : Store := set s (clientKey chain kClientState) blob
def setConsensusState (s : Store) (chain : Bytes) (h : Height) (blob : Bytes) : Store := set s (clientKey chain (consPath h)) blob
/-- tendermint `setConsensusMetadataWithValues`: processed time + iteration key -/
def tmSetMeta (s : Store) (chain : Bytes) (h : Height) (timeNs : UInt64) : Store :=
  set (set s (clientKey chain (ptimePath h)) (be64 timeNs)) (clientKey chain (iterPath h)) (consPath h)
/-- tendermint pruning: `deleteConsensusState` + `deleteConsensusMetadata` -/
def tmPrune (s : Store) (chain : Bytes) (h : Height) : Store :=
  del (del (del s (clientKey chain (consPath h))) (clientKey chain (ptimePath h))) (clientKey chain (iterPath h))
def bscSetSigner (s : Store) (chain : Bytes) (h : Height) (val : Bytes) : Store := set s (clientKey chain (signerPath h)) val
def bscDelSigner (s : Store) (chain : Bytes) (h : Height) : Store := del s (clientKey chain (signerPath h))
def bscSetPending (s : Store) (chain blob : Bytes) : Store := set s (clientKey chain kPending) blob
def ethSetIndex (s : Store) (chain hash : Bytes) (h : UInt64) (blob : Bytes) : Store := set s (clientKey chain (ethPath kEthIndex hash h)) blob
def ethSetRoot (s : Store) (chain root : Bytes) (h : UInt64) (hash : Bytes) : Store :=
  set s (clientKey chain (ethPath kEthRoot root h)) (ethPath kEthIndex hash h)
def setCommitment (s : Store) (src dst : Bytes) (seq : UInt64) (d : Bytes) : Store := set s (packetKey kCommitments src dst seq.toNat) d
def delCommitment (s : Store) (src dst : Bytes) (seq : UInt64) : Store := del s (packetKey kCommitments src dst seq.toNat)
def setAck (s : Store) (src dst : Bytes) (seq : UInt64) (d : Bytes) : Store := set s (packetKey kAcks src dst seq.toNat) d
def setReceipt (s : Store) (src dst : Bytes) (seq : UInt64) : Store := set s (packetKey kReceipts src dst seq.toNat) [1]
def setNextSeq (s : Store) (src dst : Bytes) (seq : UInt64) : Store := set s (nextSeqKey src dst) (be64 seq)

/-- what `Initialize` of each client type writes (arguments are the external computations) -/
inductive InitMeta where
  | tm (now : UInt64)
  | bsc (signer pending : Bytes)
  | eth (hash root indexBlob : Bytes)
  | tss

/-- `Keeper.CreateClient`: client state, `Initialize`, then the consensus state at the latest height (not for TSS) -/
def createClient (s : Store) (chain cblob consblob : Bytes) (h : Height) (m : InitMeta) : Store :=
  let s := setClientState s chain cblob
  match m with
  | .tm now => setConsensusState (tmSetMeta s chain h now) chain h consblob
  | .bsc signer pending => setConsensusState (bscSetPending (bscSetSigner s chain h signer) chain pending) chain h consblob
  | .eth hash root idx => setConsensusState (ethSetRoot (ethSetIndex s chain hash h.2 idx) chain root h.2 hash) chain h consblob
  | .tss => s

/-! ## genesis state -/

structure ClientGen where
  clients : List (Bytes × Bytes)                       -- (chain name, client state), sorted by name
  consensus : List (Bytes × List (Height × Bytes))     -- (chain name, [(height, consensus state)]), sorted by name
  metadata : List (Bytes × List (Bytes × Bytes))       -- (chain name, [(key, value)])
  chainName : Bytes
  relayers : List Bytes
  deriving DecidableEq

structure PacketGen where
  acks : List (Bytes × Bytes × Nat × Bytes)
  commits : List (Bytes × Bytes × Nat × Bytes)
  receipts : List (Bytes × Bytes × Nat × Bytes)
  seqs : List (Bytes × Bytes × UInt64)
  deriving DecidableEq

structure Genesis where
  client : ClientGen
  packet : PacketGen
  deriving DecidableEq

/-! ## export -/

/-- `splitClientKey`: "clients/<chainName>/<path>" by position (chain names never contain '/') -/
def splitClientKey (k : Bytes) : Option (Bytes × Bytes) :=
  if kClientsSlash.isPrefixOf k then breakAt slash (k.drop kClientsSlash.length) else none

/-- `IterateClients` -/
def iterateClients (s : Store) : List (Bytes × Bytes) :=
  (iter s kClients).filterMap fun kv =>
    match splitClientKey kv.1 with
    | some (chain, path) => if path = kClientState then some (chain, kv.2) else none
    | none => none

def insertByName {α : Type} (e : Bytes × α) : List (Bytes × α) → List (Bytes × α)
  | [] => [e]
  | x :: r => if blt e.1 x.1 then e :: x :: r else x :: insertByName e r

/-- `Sort()` of IdentifiedClientStates / ClientsConsensusStates (names are distinct) -/
def sortByName {α : Type} (l : List (Bytes × α)) : List (Bytes × α) := l.foldr insertByName []

def exportClients (s : Store) : List (Bytes × Bytes) := sortByName (iterateClients s)

/-- positional parse of "consensusStates/<16 bytes>" -/
def consHeight? (path : Bytes) : Option Height :=
  if path.length = 32 ∧ kConsPrefix.isPrefixOf path then
    some (u64OfBE ((path.drop 16).take 8), u64OfBE (path.drop 24))
  else none

/-- `IterateConsensusStates` -/
def iterateCons (s : Store) : List (Bytes × Height × Bytes) :=
  (iter s kClients).filterMap fun kv =>
    match splitClientKey kv.1 with
    | some (chain, path) =>
      match consHeight? path with
      | some h => some (chain, h, kv.2)
      | none => none
    | none => none

/-- the index map of `GetAllConsensusStates`: append to the chain's group, or open a new group at the end -/
def groupAdd {α : Type} (acc : List (Bytes × List α)) (e : Bytes × α) : List (Bytes × List α) :=
  match acc with
  | [] => [(e.1, [e.2])]
  | (c, l) :: r => if c = e.1 then (c, l ++ [e.2]) :: r else (c, l) :: groupAdd r e

def groupByName {α : Type} (l : List (Bytes × α)) : List (Bytes × List α) := l.foldl groupAdd []

def exportCons (s : Store) : List (Bytes × List (Height × Bytes)) := sortByName (groupByName (iterateCons s))

/-- `ClientStore(ctx, chain)`: the prefix-store view (keys with the prefix stripped) -/
def clientStore (s : Store) (chain : Bytes) : Store :=
  (iter s (clientPrefix chain)).map fun kv => (kv.1.drop (clientPrefix chain).length, kv.2)

/-- per client type `ExportMetadata` -/
def exportMeta (ty : Ty) (cs : Store) : List (Bytes × Bytes) :=
  match ty with
  | .tm =>
    -- IterateProcessedTime (a bare consensus key has exactly 16 bytes after the separator), then the iteration keys
    (iter cs kConsWord).filter (fun kv => !(kv.1.length == 32) && isSuffix kProcessedTime kv.1) ++ iter cs kIterate
  | .bsc => iter cs kRecent ++ iter cs kPending
  | .eth => iter cs kEthIndex ++ iter cs kEthRoot
  | .tss => []

/-- `GetAllClientMetadata` (clients without metadata are skipped) -/
def exportMetadata (s : Store) : List (Bytes × List (Bytes × Bytes)) :=
  (exportClients s).filterMap fun cb =>
    match clientTy cb.2 with
    | none => none
    | some ty =>
      let gms := exportMeta ty (clientStore s cb.1)
      if gms.isEmpty then none else some (cb.1, gms)

/-- `GetAllRelayers` -/
def exportRelayers (s : Store) : List Bytes := (iter s kRelayers).map (·.2)

def exportClientGen (s : Store) : ClientGen :=
  { clients := exportClients s, consensus := exportCons s, metadata := exportMetadata s,
    chainName := (get s kChainName).getD [], relayers := exportRelayers s }

/-- key parse of `iterateHashes`: keySplit[1], keySplit[2], ParseUint(last) -/
def parseHashKey (k : Bytes) : Option (Bytes × Bytes × Nat) :=
  match splitOn slash k with
  | _ :: src :: dst :: rest =>
    match parseDec ((dst :: rest).getLast?.getD []) with
    | some n => some (src, dst, n)
    | none => none
  | _ => none

def iterateHashes (s : Store) (pfx : Bytes) : List (Bytes × Bytes × Nat × Bytes) :=
  (iter s pfx).filterMap fun kv =>
    match parseHashKey kv.1 with
    | some (src, dst, n) => some (src, dst, n, kv.2)
    | none => none

/-- `host.ParsePath` -/
def parsePath (k : Bytes) : Option (Bytes × Bytes) :=
  match splitOn slash k with
  | _ :: src :: dst :: _ => some (src, dst)
  | _ => none

/-- `IteratePacketSequence`: stops at the first key that does not parse -/
def iterateSeqs : Store → List (Bytes × Bytes × UInt64)
  | [] => []
  | kv :: r =>
    match parsePath kv.1 with
    | some (src, dst) => (src, dst, u64OfBE (kv.2.take 8)) :: iterateSeqs r
    | none => []

def exportPacketGen (s : Store) : PacketGen :=
  { acks := iterateHashes s kAcks, commits := iterateHashes s kCommitments,
    receipts := iterateHashes s kReceipts, seqs := iterateSeqs (iter s kNextSeq) }

def exportXibc (s : Store) : Genesis := { client := exportClientGen s, packet := exportPacketGen s }

/-- the places where the real export panics (`MustUnmarshal…`, `ParseUint`, index out of range, short sequence value) -/
def exportPanics (s : Store) : Bool :=
  (iter s kClients).any (fun kv =>
    match splitClientKey kv.1 with
    | some (_, path) =>
      (path == kClientState && (clientTy kv.2).isNone) || ((consHeight? path).isSome && (consTy kv.2).isNone)
    | none => false)
  || [kAcks, kCommitments, kReceipts].any (fun p => (iter s p).any (fun kv => (parseHashKey kv.1).isNone))
  || (iter s kNextSeq).any (fun kv => (parsePath kv.1).isSome && 0 < kv.2.length && kv.2.length < 8)

def exportXibcO (s : Store) : Outcome Genesis :=
  if exportPanics s then .panic "export" else .ok (exportXibc s)

/-! ## validation -/

def isSpace (c : UInt8) : Bool := c == 0x20 || (9 ≤ c.toNat && c.toNat ≤ 13)

def idChar (c : UInt8) : Bool :=
  let n := c.toNat
  (97 ≤ n && n ≤ 122) || (65 ≤ n && n ≤ 90) || (48 ≤ n && n ≤ 57)
  || n == 46 || n == 95 || n == 43 || n == 45 || n == 35 || n == 91 || n == 93 || n == 60 || n == 62

/-- `host.ClientIdentifierValidator` = `defaultIdentifierValidator(id, 3, 64)` (also Src/DstChainValidator) -/
def validId (id : Bytes) : Bool :=
  !(id.all isSpace) && !(id.contains slash) && (3 ≤ id.length && id.length ≤ 64) && (!id.isEmpty && id.all idChar)

/-- `clienttypes.GenesisState.Validate` -/
def validateClientGen (env : Env) (g : ClientGen) : Bool :=
  g.clients.all (fun cb => validId cb.1 && (clientTy cb.2).isSome && env.validClient cb.2)
  && g.consensus.all (fun cc =>
      match (g.clients.lookup cc.1).bind clientTy with
      | none => false
      | some ty =>
        cc.2.all (fun hb => !(hb.1.1 == 0 && hb.1.2 == 0) && env.validCons hb.2 && consTy hb.2 == some ty))
  && g.metadata.all (fun cm =>
      (g.clients.lookup cm.1).isSome && cm.2.all (fun kv => !kv.1.isEmpty && !kv.2.isEmpty))
  && validId g.chainName

def validPacketState (e : Bytes × Bytes × Nat × Bytes) : Bool :=
  !e.2.2.2.isEmpty && validId e.1 && validId e.2.1 && e.2.2.1 != 0

/-- `packettypes.GenesisState.Validate` (after the JSON round trip an empty `data` is nil) -/
def validatePacketGen (g : PacketGen) : Bool :=
  g.acks.all validPacketState && g.receipts.all validPacketState && g.commits.all validPacketState
  && g.seqs.all (fun e => validId e.1 && validId e.2.1 && e.2.2 != 0)

def validateXibc (env : Env) (g : Genesis) : Bool := validateClientGen env g.client && validatePacketGen g.packet

/-! ## InitGenesis -/

/-- the store writes of `client.InitGenesis`, in order: metadata, clients, consensus states, relayers, chain name -/
def clientWrites (g : ClientGen) : List (Bytes × Bytes) :=
  (g.metadata.flatMap fun cm => cm.2.map fun kv => (clientKey cm.1 kv.1, kv.2))
  ++ (g.clients.map fun cb => (clientKey cb.1 kClientState, cb.2))
  ++ (g.consensus.flatMap fun cc => cc.2.map fun hb => (clientKey cc.1 (consPath hb.1), hb.2))
  ++ (g.relayers.map fun blob => (relayerKey (relayerAddr blob), blob))
  ++ [(kChainName, g.chainName)]

/-- `packet.InitGenesis`: acks, commitments, receipts (always the byte 1), send sequences -/
def packetWrites (g : PacketGen) : List (Bytes × Bytes) :=
  (g.acks.map fun e => (packetKey kAcks e.1 e.2.1 e.2.2.1, e.2.2.2))
  ++ (g.commits.map fun e => (packetKey kCommitments e.1 e.2.1 e.2.2.1, e.2.2.2))
  ++ (g.receipts.map fun e => (packetKey kReceipts e.1 e.2.1 e.2.2.1, [1]))
  ++ (g.seqs.map fun e => (nextSeqKey e.1 e.2.1, be64 e.2.2))

def xibcWrites (g : Genesis) : List (Bytes × Bytes) := clientWrites g.client ++ packetWrites g.packet

/-- InitGenesis into the given store (`[]` = fresh chain) -/
def initXibcOn (base : Store) (g : Genesis) : Store := setAll base (xibcWrites g)
def initXibc (g : Genesis) : Store := initXibcOn [] g

/- Note: the app codec's JSON (jsonpb with EmitDefaults) writes an empty byte field as "" and reads it back as an
   empty, non-nil slice, so `store.Set` never sees a nil value: InitGenesis of an export does not panic. -/

/-! ## aggregate (token pairs) and parameter subspaces -/

def aggPairKey (id : Bytes) : Bytes := 1 :: id
def aggErc20Key (a : Bytes) : Bytes := 2 :: a
def aggDenomKey (d : Bytes) : Bytes := 3 :: d

/-- `SetTokenPair` + `SetDenomsMap` + `SetERC20Map` (what RegisterCoin / RegisterERC20 and InitGenesis write) -/
def aggPairWrites (env : Env) (blob : Bytes) : List (Bytes × Bytes) :=
  (aggPairKey (env.pairId blob), blob)
  :: ((env.pairDenoms blob).map fun d => (aggDenomKey d, env.pairId blob))
  ++ [(aggErc20Key (env.pairErc20 blob), env.pairId blob)]

def aggSetPair (env : Env) (s : Store) (blob : Bytes) : Store := setAll s (aggPairWrites env blob)
/-- `DeleteTokenPair` -/
def aggDelPair (env : Env) (s : Store) (blob : Bytes) : Store :=
  (env.pairDenoms blob).foldl (fun s d => del s (aggDenomKey d))
    (del (del s (aggPairKey (env.pairId blob))) (aggErc20Key (env.pairErc20 blob)))

/-- `GetAllTokenPairs` -/
def exportAgg (s : Store) : List Bytes := (iter s [1]).map (·.2)
def initAgg (env : Env) (pairs : List Bytes) : Store := setAll [] (pairs.flatMap (aggPairWrites env))

/-- `aggregatetypes.GenesisState.Validate`: no duplicate contract, no duplicate first denomination, pairs valid -/
def validateAggAux (env : Env) : List Bytes → List Bytes → List Bytes → Bool
  | [], _, _ => true
  | b :: r, seenE, seenD =>
    !(seenE.contains (env.pairErc20 b)) && !(seenD.contains ((env.pairDenoms b).headD [])) && env.validPair b
    && validateAggAux env r (env.pairErc20 b :: seenE) ((env.pairDenoms b).headD [] :: seenD)
def validateAgg (env : Env) (pairs : List Bytes) : Bool := validateAggAux env pairs [] []

/-- parameter subspaces: GetParamSet reads every key, SetParamSet writes every key -/
def exportParams (p : Store) : List (Bytes × Bytes) := p
def initParams (l : List (Bytes × Bytes)) : Store := setAll [] l

/-! ## the three modules together -/

structure State where
  x : Store
  a : Store
  p : Store
  deriving DecidableEq

structure AppGenesis where
  xibc : Genesis
  pairs : List Bytes
  params : List (Bytes × Bytes)
  deriving DecidableEq

def exportAll (st : State) : AppGenesis := { xibc := exportXibc st.x, pairs := exportAgg st.a, params := exportParams st.p }
def initAll (env : Env) (g : AppGenesis) : State := { x := initXibc g.xibc, a := initAgg env g.pairs, p := initParams g.params }
def validateAll (env : Env) (g : AppGenesis) : Bool := validateXibc env g.xibc && validateAgg env g.pairs

/-! ## ModuleKeys: every key belongs to a key family the modules write (decidable) -/

/-- metadata key families of each client type (paths inside the client store) -/
def metaPath (ty : Ty) (p : Bytes) : Bool :=
  match ty with
  | .tm => (kConsWord.isPrefixOf p && !(p.length == 32) && isSuffix kProcessedTime p) || kIterate.isPrefixOf p
  | .bsc => kRecent.isPrefixOf p || kPending.isPrefixOf p
  | .eth => kEthIndex.isPrefixOf p || kEthRoot.isPrefixOf p
  | .tss => false

/-- "<pfx>/<src>/<dst>/sequences/<canonical decimal uint64>" -/
def hashKeyOk (pfx k : Bytes) : Bool :=
  match splitOn slash k with
  | [p, _, _, sq, d] =>
    p == pfx && sq == kSequences && (match parseDec d with | some n => toDec n == d | none => false)
  | _ => false

def seqKeyOk (k : Bytes) : Bool :=
  match splitOn slash k with
  | [p, _, _] => p == kNextSeq
  | _ => false

def xKeyOk (s : Store) (k v : Bytes) : Bool :=
  if k = kChainName then true
  else if kRelayers.isPrefixOf k then k == relayerKey (relayerAddr v)
  else if kClients.isPrefixOf k then
    match splitClientKey k with
    | none => false
    | some (chain, path) =>
      if path = kClientState then (clientTy v).isSome
      else if (consHeight? path).isSome then (consTy v).isSome
      else
        match (get s (clientKey chain kClientState)).bind clientTy with
        | none => false
        | some ty => metaPath ty path
  else if kAcks.isPrefixOf k then hashKeyOk kAcks k
  else if kCommitments.isPrefixOf k then hashKeyOk kCommitments k
  else if kReceipts.isPrefixOf k then hashKeyOk kReceipts k && v == [1]
  else if kNextSeq.isPrefixOf k then seqKeyOk k && v.length == 8
  else false

def moduleKeysB (s : Store) : Bool :=
  sortedB s && (get s kChainName).isSome && s.all (fun kv => xKeyOk s kv.1 kv.2)

/-- every key of the xibc store belongs to one of the key families the module writes (chain names without '/',
any 16-byte height, canonical decimal sequences), client / consensus values decodable, relayers stored under their own address,
and the chain name is set -/
def ModuleKeys (s : Store) : Prop := moduleKeysB s = true

instance (s : Store) : Decidable (ModuleKeys s) := inferInstanceAs (Decidable (_ = true))

/-! ## WellFormed: what the message handlers guarantee about reachable entries (needed by `Validate`) -/

def wfEntry (env : Env) (s : Store) (k v : Bytes) : Bool :=
  match splitClientKey k with
  | some (chain, path) =>
    if path = kClientState then validId chain && env.validClient v
    else
      match consHeight? path with
      | some h =>
        !(h.1 == 0 && h.2 == 0) && env.validCons v
        && ((get s (clientKey chain kClientState)).bind clientTy == consTy v) && (consTy v).isSome
      | none => !v.isEmpty && !path.isEmpty            -- client metadata
  | none =>
    if kAcks.isPrefixOf k || kCommitments.isPrefixOf k || kReceipts.isPrefixOf k then
      match parseHashKey k with
      | some (a, b, n) => validPacketState (a, b, n, v)
      | none => false
    else if kNextSeq.isPrefixOf k then
      match parsePath k with
      | some (a, b) => validId a && validId b && u64OfBE (v.take 8) != 0
      | none => false
    else true

/-- valid chain names, valid client / consensus states of matching type at non-zero heights, non-empty metadata and
packet data, non-zero sequences: what CreateClient / UpdateClient / the packet handlers establish -/
def wellFormedB (env : Env) (s : Store) : Bool :=
  s.all (fun kv => wfEntry env s kv.1 kv.2) && validId ((get s kChainName).getD [])

def WellFormed (env : Env) (s : Store) : Prop := wellFormedB env s = true

/-- the aggregate store holds exactly the three index entries of every pair -/
def aggKeyOk (env : Env) (s : Store) (k v : Bytes) : Bool :=
  match k with
  | 1 :: id => env.pairId v == id && (get s (aggErc20Key (env.pairErc20 v)) == some id)
      && (env.pairDenoms v).all (fun d => get s (aggDenomKey d) == some id)
  | 2 :: e => (match get s (aggPairKey v) with | some b => env.pairErc20 b == e && env.pairId b == v | none => false)
  | 3 :: d => (match get s (aggPairKey v) with | some b => (env.pairDenoms b).contains d && env.pairId b == v | none => false)
  | _ => false

def aggKeysB (env : Env) (s : Store) : Bool := sortedB s && s.all (fun kv => aggKeyOk env s kv.1 kv.2)
def AggKeys (env : Env) (s : Store) : Prop := aggKeysB env s = true


/-! ## x/aggregate genesis as a whole: token-pair store + the `aggregate/` parameter subspace -/

structure AggState where
  a : Store          -- the aggregate KV store (three index prefixes)
  p : Store          -- the module's parameter subspace
  deriving DecidableEq

structure AggGenesis where
  pairs : List Bytes
  params : List (Bytes × Bytes)
  deriving DecidableEq

/-- `aggregate.ExportGenesis`: `GetParams` + `GetAllTokenPairs` -/
def exportAggregate (st : AggState) : AggGenesis := { pairs := exportAgg st.a, params := exportParams st.p }
/-- `aggregate.InitGenesis`: `SetParams`, then for every pair `SetTokenPair`, `SetDenomsMap` (EVERY denomination), `SetERC20Map` -/
def initAggregate (env : Env) (g : AggGenesis) : AggState := { a := initAgg env g.pairs, p := initParams g.params }
/-- `aggregatetypes.GenesisState.Validate` (`Params.Validate` is `nil`) -/
def validateAggregate (env : Env) (g : AggGenesis) : Bool := validateAgg env g.pairs

/-- what RegisterCoin / RegisterERC20 guarantee about every stored pair: it validates and lists at least one denomination -/
def aggWellFormedB (env : Env) (s : Store) : Bool :=
  (exportAgg s).all (fun b => env.validPair b && !(env.pairDenoms b).isEmpty)
def AggWellFormed (env : Env) (s : Store) : Prop := aggWellFormedB env s = true

/-- the seeded variant of InitGenesis that indexes only `Denoms[0]` -/
def aggPairWritesHeadOnly (env : Env) (blob : Bytes) : List (Bytes × Bytes) :=
  (aggPairKey (env.pairId blob), blob)
  :: (((env.pairDenoms blob).take 1).map fun d => (aggDenomKey d, env.pairId blob))
  ++ [(aggErc20Key (env.pairErc20 blob), env.pairId blob)]
def initAggHeadOnly (env : Env) (pairs : List Bytes) : Store := setAll [] (pairs.flatMap (aggPairWritesHeadOnly env))

/-! ## the registry operations behind the governance / message handlers, as store operations -/

/-- RegisterCoin / RegisterERC20 (and the second half of AddCoin, ToggleTokenRelay, UpdateTokenPairERC20): a pair whose id,
contract and denominations are all unused is written with its index entries -/
def aggSetGuard (env : Env) (s : Store) (b : Bytes) : Bool :=
  (get s (aggPairKey (env.pairId b))).isNone && (get s (aggErc20Key (env.pairErc20 b))).isNone
  && (env.pairDenoms b).all (fun d => (get s (aggDenomKey d)).isNone)
  && decide (env.pairDenoms b).Nodup && !(env.pairDenoms b).isEmpty && env.validPair b

/-- `DeleteTokenPair` of a STORED pair (self-destruct clean-up; first half of AddCoin / Toggle / UpdateTokenPairERC20, which
re-write the pair under its own or a new id) -/
def aggDelGuard (env : Env) (s : Store) (b : Bytes) : Bool := get s (aggPairKey (env.pairId b)) == some b

inductive AggOp where
  | set (blob : Bytes)
  | del (blob : Bytes)

def applyAgg (env : Env) (s : Store) : AggOp → Store
  | .set b => if aggSetGuard env s b then aggSetPair env s b else s
  | .del b => if aggDelGuard env s b then aggDelPair env s b else s

/-! ## x/rvesting InitGenesis with `From` funding (bank balances as a function address → denomination → amount) -/

abbrev Balances := Bytes → Bytes → Nat

structure RvGenesis where
  params : List (Bytes × Bytes)
  sender : Bytes                       -- "" in every export
  fromValid : Bool                   -- `sdk.AccAddressFromBech32(From)` succeeds (external)
  initReward : List (Bytes × Nat)    -- sdk.Coins: sorted, distinct denominations

structure RvState where
  p : Store
  bal : Balances

/-- `bank.SendCoins`: every coin must be covered by the sender's balance -/
def canPay (bal : Balances) (sender : Bytes) (coins : List (Bytes × Nat)) : Bool :=
  coins.all (fun c => c.2 ≤ bal sender c.1)

def amountOf (coins : List (Bytes × Nat)) (d : Bytes) : Nat :=
  (coins.filter (fun c => c.1 = d)).foldl (fun a c => a + c.2) 0

def sendCoins (bal : Balances) (sender to : Bytes) (coins : List (Bytes × Nat)) : Balances :=
  fun a d =>
    if sender = to then bal a d
    else if a = sender then bal a d - amountOf coins d
    else if a = to then bal a d + amountOf coins d
    else bal a d

/-- `rvesting Keeper.InitGenesis`: SetParams; if `From` is set, parse it (panic on failure) and move `InitReward` from it to
the module account (panic if it cannot pay) -/
def initRvesting (pool : Bytes) (bal : Balances) (g : RvGenesis) : Outcome RvState :=
  let p := initParams g.params
  if g.sender = [] then .ok { p := p, bal := bal }
  else if !g.fromValid then .panic "bech32"
  else if !canPay bal g.sender g.initReward then .panic "insufficient funds"
  else .ok { p := p, bal := sendCoins bal g.sender pool g.initReward }

/-- `rvesting Keeper.ExportGenesis`: parameters only (`From` = "", `InitReward` = empty) -/
def exportRvesting (p : Store) : RvGenesis := { params := exportParams p, sender := [], fromValid := false, initReward := [] }


/-! ## x/rvesting parameters, structured: every list the module's validator accepts (unsorted, zero amounts, …) -/

/-- the rvesting parameter set as stored (`EnableVesting`, `PerBlockReward` in the order and with the amounts it was given) -/
structure RvParams where
  enable : Bool
  reward : List Vesting.Entry
  deriving DecidableEq

/-- cosmos-sdk v0.45.2 `reDnmString`: a letter, then 2 to 127 letters, digits, slashes or hyphens (the characters `: . _` are
accepted only from v0.46 on) -/
def rvDenomTail (c : Char) : Bool := c.isAlphanum || c == '/' || c == '-'
def rvValidDenom (d : String) : Bool :=
  match d.toList with
  | [] => false
  | c :: cs => c.isAlpha && cs.all rvDenomTail && 2 ≤ cs.length && cs.length ≤ 127

/-- `validatePerBlockReward` (shared by SetParamSet, parameter-change proposals and — since /repo 7695f9c — genesis validation):
non-empty, valid distinct denominations, non-nil non-negative amounts; NOT required: sorted, non-zero -/
def validateReward (es : List Vesting.Entry) : Bool :=
  !es.isEmpty &&
  es.all (fun e => rvValidDenom e.denom && (match e.amount with | some a => decide (0 ≤ a) | none => false)) &&
  decide ((es.map (·.denom)).Nodup)

def validateRvParams (p : RvParams) : Bool := validateReward p.reward

/-- `Keeper.ExportGenesis` = `NewGenesisState(GetParams())`: the parameters exactly as stored -/
def exportRvParams (p : RvParams) : RvParams := p

/-- `Keeper.InitGenesis` → `SetParamSet`: validates every field, panics on failure -/
def setRvParams (p : RvParams) : Outcome RvParams :=
  if validateRvParams p then .ok p else .panic "SetParamSet: invalid PerBlockReward"

/-- a parameter-change proposal (`Subspace.Update` of PerBlockReward, then of EnableVesting) -/
def updateRvParams (cur : RvParams) (p : RvParams) : Outcome RvParams :=
  if validateReward p.reward then .ok p else .err "invalid PerBlockReward"

/-- what `sdk.NewCoins` does to a list (sort by denomination, drop zero amounts) — the "canonical form" a seeded change
applied inside `NewGenesisState`; NOT part of the export -/
def insertEntry (e : Vesting.Entry) : List Vesting.Entry → List Vesting.Entry
  | [] => [e]
  | x :: r => if e.denom < x.denom then e :: x :: r else x :: insertEntry e r
def canonCoins (es : List Vesting.Entry) : List Vesting.Entry :=
  (es.filter (fun e => e.amount != some 0)).foldr insertEntry []

def asciiBytes (s : String) : Bytes := s.toList.map (fun c => UInt8.ofNat c.toNat)

/-- legacy-amino JSON of `sdk.Coins` as the params store holds it -/
def rvRewardJson (es : List Vesting.Entry) : Bytes :=
  asciiBytes ("[" ++ joinWith "," (es.map fun e =>
    "{\"denom\":\"" ++ e.denom ++ "\",\"amount\":\"" ++ toString (e.amount.getD 0) ++ "\"}") ++ "]")

def kRvEnable : Bytes := asciiBytes "rvesting/EnableVesting"
def kRvReward : Bytes := asciiBytes "rvesting/PerBlockReward"

/-- the two entries of the `rvesting/` parameter subspace -/
def rvParamsKV (p : RvParams) : List (Bytes × Bytes) :=
  [(kRvEnable, asciiBytes (if p.enable then "true" else "false")), (kRvReward, rvRewardJson p.reward)]

/-! ## the modelled keeper operations as a datatype (for reachability) -/

/-- `clearClientStore` of the repaired `ToggleClient`: every entry under "clients/<chain>/" is deleted -/
def clearClient (s : Store) (chain : Bytes) : Store := s.filter (fun kv => !(clientPrefix chain).isPrefixOf kv.1)

/-- BSC `DeleteAllSigner`: every recent-signer entry of the client -/
def bscClearSigners (s : Store) (chain : Bytes) : Store := s.filter (fun kv => !(clientKey chain kRecent).isPrefixOf kv.1)

/-- `Keeper.UpgradeClient` (same client type): the new state's `UpgradeState` (Tendermint: metadata at the new latest height;
BSC: all recent signers deleted, then signer + pending validators as in `Initialize` — the earliest consensus state is pruned
only when expired, which the model takes as not the case; ETH: header index + root main; TSS: nothing), then the client state,
then — ONLY when the client is not a TSS client (/repo 6c33891) — the consensus state at the new latest height -/
def upgradeClient (s : Store) (chain cblob consblob : Bytes) (h : Height) (m : InitMeta) : Store :=
  match m with
  | .tm now => setConsensusState (setClientState (tmSetMeta s chain h now) chain cblob) chain h consblob
  | .bsc signer pending =>
    setConsensusState (setClientState (bscSetPending (bscSetSigner (bscClearSigners s chain) chain h signer) chain pending) chain cblob) chain h consblob
  | .eth hash root idx =>
    setConsensusState (setClientState (ethSetRoot (ethSetIndex s chain hash h.2 idx) chain root h.2 hash) chain cblob) chain h consblob
  | .tss => setClientState s chain cblob

/-- does the `Initialize` metadata belong to the client type? -/
def InitMeta.tyOk : InitMeta → Ty → Bool
  | .tm _, .tm => true
  | .bsc _ _, .bsc => true
  | .eth _ _ _, .eth => true
  | .tss, .tss => true
  | _, _ => false

def tyOfChain (s : Store) (chain : Bytes) : Option Ty := (get s (clientKey chain kClientState)).bind clientTy

def noSlash (b : Bytes) : Bool := !b.contains slash

/-- keeper operations with the guards the handlers / keepers have (an operation whose guard fails leaves the store unchanged,
as the failing transaction is reverted) -/
inductive KOp where
  | chainName (n : Bytes)
  | relayer (blob : Bytes)
  | create (chain cblob consblob : Bytes) (h : Height) (m : InitMeta)      -- CreateClient: no client for the chain yet
  | toggle (chain cblob consblob : Bytes) (h : Height) (m : InitMeta)      -- ToggleClient: clears the client store first
  | upgrade (chain cblob consblob : Bytes) (h : Height) (m : InitMeta)     -- UpgradeClient: same client type
  | clientSameType (chain blob : Bytes)                                    -- UpdateClient: same client type
  | cons (chain : Bytes) (h : Height) (blob : Bytes)
  | tmMeta (chain : Bytes) (h : Height) (t : UInt64)
  | tmPrune (chain : Bytes) (h : Height)
  | bscSigner (chain : Bytes) (h : Height) (v : Bytes)
  | bscDelSigner (chain : Bytes) (h : Height)
  | bscPending (chain blob : Bytes)
  | ethIndex (chain hash : Bytes) (h : UInt64) (blob : Bytes)
  | ethRoot (chain root : Bytes) (h : UInt64) (hash : Bytes)
  | commit (src dst : Bytes) (q : UInt64) (d : Bytes)
  | delCommit (src dst : Bytes) (q : UInt64)
  | ack (src dst : Bytes) (q : UInt64) (d : Bytes)
  | receipt (src dst : Bytes) (q : UInt64)
  | nextSeq (src dst : Bytes) (q : UInt64)

def createGuard (chain cblob consblob : Bytes) (m : InitMeta) : Bool :=
  noSlash chain &&
  (match clientTy cblob with
   | some ty => m.tyOk ty && (ty == .tss || (consTy consblob).isSome)
   | none => false)

def applyOp (s : Store) : KOp → Store
  | .chainName n => setChainName s n
  | .relayer blob => registerRelayer s blob
  | .create chain cb sb h m =>
    if createGuard chain cb sb m && (get s (clientKey chain kClientState)).isNone then createClient s chain cb sb h m else s
  | .toggle chain cb sb h m =>
    if createGuard chain cb sb m && (get s (clientKey chain kClientState)).isSome
    then createClient (clearClient s chain) chain cb sb h m else s
  | .upgrade chain cb sb h m =>
    if createGuard chain cb sb m && tyOfChain s chain == clientTy cb then upgradeClient s chain cb sb h m else s
  | .clientSameType chain blob =>
    if noSlash chain && (clientTy blob).isSome && tyOfChain s chain == clientTy blob then setClientState s chain blob else s
  | .cons chain h blob => if noSlash chain && (consTy blob).isSome then setConsensusState s chain h blob else s
  | .tmMeta chain h t => if noSlash chain && tyOfChain s chain == some .tm then tmSetMeta s chain h t else s
  | .tmPrune chain h => if noSlash chain then tmPrune s chain h else s
  | .bscSigner chain h v => if noSlash chain && tyOfChain s chain == some .bsc then bscSetSigner s chain h v else s
  | .bscDelSigner chain h => if noSlash chain then bscDelSigner s chain h else s
  | .bscPending chain blob => if noSlash chain && tyOfChain s chain == some .bsc then bscSetPending s chain blob else s
  | .ethIndex chain hash h blob => if noSlash chain && tyOfChain s chain == some .eth then ethSetIndex s chain hash h blob else s
  | .ethRoot chain root h hash => if noSlash chain && tyOfChain s chain == some .eth then ethSetRoot s chain root h hash else s
  | .commit src dst q d => if noSlash src && noSlash dst then setCommitment s src dst q d else s
  | .delCommit src dst q => if noSlash src && noSlash dst then delCommitment s src dst q else s
  | .ack src dst q d => if noSlash src && noSlash dst then setAck s src dst q d else s
  | .receipt src dst q => if noSlash src && noSlash dst then setReceipt s src dst q else s
  | .nextSeq src dst q => if noSlash src && noSlash dst then setNextSeq s src dst q else s

/-- BSC `Initialize` parses the validators of the epoch header; the repaired `ParseValidators` rejects an empty set
(fix C13-bsc-empty-validator-set) -/
def InitMeta.initOk : InitMeta → Bool
  | .bsc _ pending => !pending.isEmpty
  | _ => true

/-- `Initialize` / `UpgradeState` of the Tendermint, BSC and ETH clients assert that the consensus state is of their own type;
the TSS client accepts anything (and, since /repo 6c33891, no consensus state is stored for it whatever the proposal carries) -/
def consOk (cblob consblob : Bytes) : Bool :=
  match clientTy cblob with
  | some .tss => true
  | some ty => consTy consblob == some ty
  | none => false

/-- a create-client proposal: `ClientState.Validate()` (external, incl. the repaired "height 0-0 rejected" of BSC / ETH),
then `Keeper.CreateClient`; a failing `Initialize` reverts the transaction -/
def createClientO (s : Store) (chain cblob : Bytes) (cvalid : Bool) (consblob : Bytes) (h : Height) (m : InitMeta) : Outcome Store :=
  if !cvalid then .err "client state invalid"
  else if !consOk cblob consblob then .err "consensus state type"
  else if !m.initOk then .err "initialize"
  else .ok (createClient s chain cblob consblob h m)

/-- a toggle-client proposal: the client must exist and be of ANOTHER type; the repaired keeper clears the client store first -/
def toggleClientO (s : Store) (chain cblob : Bytes) (cvalid : Bool) (consblob : Bytes) (h : Height) (m : InitMeta) : Outcome Store :=
  if !cvalid then .err "client state invalid"
  else
    match get s (clientKey chain kClientState) with
    | none => .err "client not found"
    | some cv =>
      if clientTy cv == clientTy cblob then .err "same type"
      else if !consOk cblob consblob then .err "consensus state type"
      else if !m.initOk then .err "initialize"
      else .ok (createClient (clearClient s chain) chain cblob consblob h m)

/-- an upgrade-client proposal: the client must exist and be of the SAME type -/
def upgradeClientO (s : Store) (chain cblob : Bytes) (cvalid : Bool) (consblob : Bytes) (h : Height) (m : InitMeta) : Outcome Store :=
  if !cvalid then .err "client state invalid"
  else
    match get s (clientKey chain kClientState) with
    | none => .err "client not found"
    | some cv =>
      if clientTy cv != clientTy cblob then .err "other type"
      else if !consOk cblob consblob then .err "consensus state type"
      else if !m.initOk then .err "upgrade state"
      else .ok (upgradeClient s chain cblob consblob h m)

/-! ## BSC `UpdateClient`: what one accepted header writes (bsc/types/update.go, header.go `verifySeal`) -/

/-- effects of an accepted BSC header at height `h`: `verifySeal` records the recent signer; `update()` stores the pending validator
set ONLY at an epoch header and only a non-empty one (`ParseValidators` rejects an empty list; the record is never reset or
deleted — it stays until the next epoch header overwrites it), deletes the recent-signer records that leave the window (more of
them when the set in force shrinks at the switch height); the keeper then stores the new client state (header, validators in
force) and the consensus state. The expiry pruning of the earliest consensus state is not modelled (trusting period not reached). -/
def bscUpdate (s : Store) (chain : Bytes) (h : Height) (cblob consblob signer : Bytes) (pending : Option Bytes)
    (dels : List Height) : Store :=
  let s1 := bscSetSigner s chain h signer
  let s2 := match pending with
    | some p => bscSetPending s1 chain p
    | none => s1
  let s3 := dels.foldl (fun s d => bscDelSigner s chain d) s2
  setConsensusState (setClientState s3 chain cblob) chain h consblob

def bscUpdateGuard (s : Store) (chain cblob consblob signer : Bytes) (pending : Option Bytes) : Bool :=
  noSlash chain && tyOfChain s chain == some .bsc && clientTy cblob == some .bsc && consTy consblob == some .bsc
  && !signer.isEmpty && (match pending with | some p => !p.isEmpty | none => true)

def bscUpdateO (s : Store) (chain : Bytes) (h : Height) (cblob consblob signer : Bytes) (pending : Option Bytes)
    (dels : List Height) : Outcome Store :=
  if bscUpdateGuard s chain cblob consblob signer pending then .ok (bscUpdate s chain h cblob consblob signer pending dels)
  else .err "update"

/-- the operations of a BSC light client's life: installed at an epoch header (create), carried by accepted headers (update) -/
inductive BscOp where
  | create (chain cblob consblob : Bytes) (h : Height) (signer pending : Bytes)
  | update (chain : Bytes) (h : Height) (cblob consblob signer : Bytes) (pending : Option Bytes) (dels : List Height)

def applyBsc (s : Store) : BscOp → Store
  | .create chain cb sb h signer pending =>
    if createGuard chain cb sb (.bsc signer pending) && clientTy cb == some .bsc && !signer.isEmpty && !pending.isEmpty
        && (get s (clientKey chain kClientState)).isNone
    then createClient s chain cb sb h (.bsc signer pending) else s
  | .update chain h cb sb signer pending dels =>
    if bscUpdateGuard s chain cb sb signer pending then bscUpdate s chain h cb sb signer pending dels else s

/-- every value except the chain name is non-empty (in particular every client-metadata value, which
`GenesisMetadata.Validate` demands of an export) -/
def nonEmptyValsB (s : Store) : Bool := s.all (fun kv => kv.1 == kChainName || !kv.2.isEmpty)
def NonEmptyVals (s : Store) : Prop := nonEmptyValsB s = true

/-! ## the module-level entry points: `AppModule.InitGenesis(ctx, cdc, json)` -/

/-- `AppModule.InitGenesis` of xibc, aggregate and rvesting (module.go): `cdc.MustUnmarshalJSON(json, &gs)` and then the keeper-level
InitGenesis on exactly the decoded state — no defaulting, no "zero value means absent" in between -/
def moduleInit {G S : Type} (decode : Bytes → Option G) (init : G → S) (json : Bytes) : Outcome S :=
  match decode json with
  | some g => .ok (init g)
  | none => .panic "unmarshal"

/-- the seeded variant of aggregate's `AppModule.InitGenesis`: a decoded `Params` equal to the zero value is replaced by the defaults -/
def initAggregateDefaulting (env : Env) (zero dflt : List (Bytes × Bytes)) (g : AggGenesis) : AggState :=
  if g.params = zero then initAggregate env { g with params := dflt } else initAggregate env g

/-- the xibc store right after `InitGenesis` of a fresh chain: only the native chain name -/
def freshStore (n : Bytes) : Store := setChainName [] n

end TM.Genesis
