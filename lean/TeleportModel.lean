-- Root of the `TeleportModel` library: models, drivers, proofs and audits.
import TeleportModel.Base.Util
import TeleportModel.Model.Vesting
import TeleportModel.Driver.C20
