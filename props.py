"""Per-property configuration of ./check (which proof modules, which harness test, which driver)."""

TRUSTED_BASE = [
    "Lean 4.33.0 kernel; axioms allowed: propext, Classical.choice, Quot.sound (audited per theorem with #print axioms on every run)",
    "the hand-written Lean model is tied to /repo only through the correspondence harness (generator quality bounds it) and the gofacts translator",
    "Go harness + oracles (/verif/harness), ./check verdict logic, Lean line-protocol drivers",
    "cosmos-sdk v0.45.2, ethermint v0.13.0, go-ethereum v1.10.16, tendermint v0.34.16, ibc-go v3.0.0 behaviour is exercised, not proved",
]

PROPS = {
    "C20": {
        "proofs": ["TeleportModel.Proofs.C20"],
        "driver": "C20",
        "test": "TestC20",
        "required_theorems": ["TM.Vesting.moves_min", "TM.Vesting.idle_disabled", "TM.Vesting.idle_empty",
                              "TM.Vesting.supply_conserved", "TM.Vesting.over_blocks", "TM.Vesting.validate_valid", "TM.Vesting.no_panic"],
        "rule": "random histories of reward-parameter changes (through the real Subspace.Update validation), enable toggles, pool funding and blocks; "
                "a case is one history prefix ending in `block`; distinct = distinct op text of the prefix",
        "floors": {"quick": {"block.moved": 100, "reward.accepted": 100, "reward.rejected": 50}, "thorough": {"block.moved": 2000}},
        "assumptions": ["bank SendCoins / Coins.Add behave as transcribed from cosmos-sdk v0.45.2 (validated by the differential run)",
                        "the pool (module account) has no locked coins"],
    },
}
