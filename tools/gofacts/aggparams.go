package main

// Extractor "aggparams": the (store key, Params field) pairs of x/aggregate/types/params.go `Params.ParamSetPairs`
// with the key constants resolved to their strings. A governance parameter change addresses a parameter BY KEY, the
// keeper reads the FIELD: a pair binding a key to the wrong field silently disconnects the two (C11 obligation
// `paramPairs_bind_own_field`).

import (
	"fmt"
	"go/ast"
	"go/token"
	"path/filepath"
	"strings"
)

func init() { register(Extractor{Name: "aggparams", Run: runAggParams}) }

func runAggParams(ctx *Ctx) error {
	fset := token.NewFileSet()
	path := filepath.Join(ctx.Repo, "x", "aggregate", "types", "params.go")
	f, err := parseFile(fset, path)
	if err != nil {
		return err
	}
	keys := map[string]string{} // constant name -> key string
	for _, d := range f.Decls {
		gd, ok := d.(*ast.GenDecl)
		if !ok || gd.Tok != token.VAR {
			continue
		}
		for _, sp := range gd.Specs {
			vs := sp.(*ast.ValueSpec)
			for i, n := range vs.Names {
				if i >= len(vs.Values) {
					continue
				}
				// []byte("…")
				call, ok := vs.Values[i].(*ast.CallExpr)
				if !ok || len(call.Args) != 1 {
					continue
				}
				if at, ok := call.Fun.(*ast.ArrayType); !ok || at.Len != nil {
					continue
				}
				if s, ok := stringLit(call.Args[0]); ok {
					keys[n.Name] = s
				}
			}
		}
	}
	type pair struct{ Key, Field string }
	var pairs []pair
	found := false
	for _, d := range f.Decls {
		fd, ok := d.(*ast.FuncDecl)
		if !ok || fd.Name.Name != "ParamSetPairs" || fd.Recv == nil {
			continue
		}
		found = true
		if len(fd.Body.List) != 1 {
			return fmt.Errorf("ParamSetPairs: expected a single return statement")
		}
		ret, ok := fd.Body.List[0].(*ast.ReturnStmt)
		if !ok || len(ret.Results) != 1 {
			return fmt.Errorf("ParamSetPairs: expected a single return statement")
		}
		lit, ok := ret.Results[0].(*ast.CompositeLit)
		if !ok {
			return fmt.Errorf("ParamSetPairs: expected a composite literal")
		}
		recv := ""
		if len(fd.Recv.List) == 1 && len(fd.Recv.List[0].Names) == 1 {
			recv = fd.Recv.List[0].Names[0].Name
		}
		for _, el := range lit.Elts {
			call, ok := el.(*ast.CallExpr)
			if !ok || len(call.Args) != 3 {
				return fmt.Errorf("ParamSetPairs: element is not NewParamSetPair(key, &field, validator)")
			}
			if sel, ok := call.Fun.(*ast.SelectorExpr); !ok || sel.Sel.Name != "NewParamSetPair" {
				return fmt.Errorf("ParamSetPairs: element is not a NewParamSetPair call")
			}
			kid, ok := call.Args[0].(*ast.Ident)
			if !ok {
				return fmt.Errorf("ParamSetPairs: key is not a named constant")
			}
			ks, ok := keys[kid.Name]
			if !ok {
				return fmt.Errorf("ParamSetPairs: key constant %s is not a []byte(\"…\") variable of params.go", kid.Name)
			}
			un, ok := call.Args[1].(*ast.UnaryExpr)
			if !ok || un.Op != token.AND {
				return fmt.Errorf("ParamSetPairs: value of %s is not &%s.Field", kid.Name, recv)
			}
			sel, ok := un.X.(*ast.SelectorExpr)
			if !ok {
				return fmt.Errorf("ParamSetPairs: value of %s is not &%s.Field", kid.Name, recv)
			}
			if id, ok := sel.X.(*ast.Ident); !ok || id.Name != recv {
				return fmt.Errorf("ParamSetPairs: value of %s is not a field of the receiver", kid.Name)
			}
			pairs = append(pairs, pair{ks, sel.Sel.Name})
		}
	}
	if !found {
		return fmt.Errorf("x/aggregate/types/params.go: no method ParamSetPairs")
	}
	var sb strings.Builder
	sb.WriteString(leanHeader)
	sb.WriteString("-- source: x/aggregate/types/params.go (Params.ParamSetPairs and the ParamStoreKey… variables)\n")
	sb.WriteString("namespace TM.Generated.AggregateParams\n\n")
	sb.WriteString("/-- (parameter store key, field of `Params` it is bound to), in the order of `ParamSetPairs` -/\n")
	sb.WriteString("def paramPairs : List (String × String) := [")
	for i, p := range pairs {
		if i > 0 {
			sb.WriteString(", ")
		}
		sb.WriteString(fmt.Sprintf("(%q, %q)", p.Key, p.Field))
	}
	sb.WriteString("]\n\nend TM.Generated.AggregateParams\n")
	ctx.Fact("aggregate_param_pairs", pairs)
	return ctx.Emit("AggregateParams.lean", sb.String())
}
