package main

// Extractor "prefixsites": inventory of every raw prefix iteration / prefix store construction / range iteration in x/xibc and
// x/aggregate (sdk.KVStorePrefixIterator, sdk.KVStoreReversePrefixIterator, prefix.NewStore, <store>.Iterator / ReverseIterator)
// with the SHAPE of its prefix argument. A prefix that is built from a variable-length name component (fmt.Sprintf with a
// non-constant %s argument, or a string concatenation) must END WITH THE SEPARATOR, otherwise a range operation on `clients/x`
// also covers `clients/x-2/…`. The expected inventory is props/C19.json "prefix_sites"; a site that is not listed there is
// emitted with `known := false` (and named on stdout), which breaks the obligation `prefix_sites_known`.

import (
	"encoding/json"
	"fmt"
	"go/ast"
	"go/token"
	"os"
	"path/filepath"
	"sort"
	"strings"
)

func init() { register(Extractor{Name: "prefixsites", Run: runPrefixSites}) }

type prefixSite struct {
	ID         string `json:"id"` // file:func:via:argument text
	File       string `json:"file"`
	Func       string `json:"func"`
	Via        string `json:"via"`
	Arg        string `json:"arg"`
	Kind       string `json:"kind"` // const | param | hostFn | sprintf | concat | fullRange | other
	Terminated bool   `json:"terminated"`
	Known      bool   `json:"known"`
}

// localRHS finds the expression assigned to a local variable of the function
func localRHS(fd *ast.FuncDecl, name string) ast.Expr {
	var rhs ast.Expr
	ast.Inspect(fd.Body, func(n ast.Node) bool {
		as, ok := n.(*ast.AssignStmt)
		if ok && len(as.Lhs) == len(as.Rhs) {
			for i, l := range as.Lhs {
				if id, ok := l.(*ast.Ident); ok && id.Name == name && rhs == nil {
					rhs = as.Rhs[i]
				}
			}
		}
		return true
	})
	return rhs
}

func isParamOf(fd *ast.FuncDecl, name string) bool {
	for _, f := range fd.Type.Params.List {
		for _, n := range f.Names {
			if n.Name == name {
				return true
			}
		}
	}
	return false
}

func isConstLike(fd *ast.FuncDecl, e ast.Expr) bool {
	switch x := e.(type) {
	case *ast.BasicLit:
		return true
	case *ast.SelectorExpr:
		if id, ok := x.X.(*ast.Ident); ok {
			// pkg.Const — but not req.Field / a.b of a local or parameter
			return !isParamOf(fd, id.Name) && localRHS(fd, id.Name) == nil
		}
	case *ast.Ident:
		return x.Name == "nil" || (!isParamOf(fd, x.Name) && localRHS(fd, x.Name) == nil)
	case *ast.CallExpr:
		if (isByteSliceType(x.Fun) || isIdent(x.Fun, "string")) && len(x.Args) == 1 {
			return isConstLike(fd, x.Args[0])
		}
	}
	return false
}

// classifyPrefix returns (kind, terminated)
func classifyPrefix(fd *ast.FuncDecl, e ast.Expr, depth int) (string, bool) {
	if depth > 4 {
		return "other", false
	}
	switch x := e.(type) {
	case *ast.CallExpr:
		if (isByteSliceType(x.Fun) || isIdent(x.Fun, "string")) && len(x.Args) == 1 {
			return classifyPrefix(fd, x.Args[0], depth+1)
		}
		name := selName(x.Fun)
		if name == "fmt.Sprintf" && len(x.Args) >= 1 {
			format, ok := stringLit(x.Args[0])
			if !ok {
				return "other", false
			}
			variable := false
			for _, a := range x.Args[1:] {
				if !isConstLike(fd, a) {
					variable = true
				}
			}
			if !variable {
				return "const", true
			}
			return "sprintf", strings.HasSuffix(format, "/")
		}
		if strings.HasPrefix(name, "host.") {
			return "hostFn", true
		}
		return "other", false
	case *ast.BinaryExpr:
		if x.Op == token.ADD {
			if isConstLike(fd, x.X) && isConstLike(fd, x.Y) {
				return "const", true
			}
			s, ok := stringLit(x.Y)
			return "concat", ok && strings.HasSuffix(s, "/")
		}
	case *ast.Ident:
		if x.Name == "nil" {
			return "const", true
		}
		if isParamOf(fd, x.Name) {
			return "param", true
		}
		if rhs := localRHS(fd, x.Name); rhs != nil {
			return classifyPrefix(fd, rhs, depth+1)
		}
		return "const", true
	case *ast.SelectorExpr, *ast.BasicLit:
		if isConstLike(fd, e) {
			return "const", true
		}
		return "param", true // a field of a request / parameter used as the whole prefix
	}
	return "other", false
}

func runPrefixSites(ctx *Ctx) error {
	fset := token.NewFileSet()
	var sites []prefixSite
	for _, root := range []string{"x/xibc", "x/aggregate"} {
		err := filepath.Walk(filepath.Join(ctx.Repo, root), func(path string, info os.FileInfo, err error) error {
			if err != nil {
				return err
			}
			if info.IsDir() {
				if n := info.Name(); n == "testing" || n == "simulation" || n == "testdata" {
					return filepath.SkipDir
				}
				return nil
			}
			if !strings.HasSuffix(path, ".go") || strings.HasSuffix(path, "_test.go") || strings.HasSuffix(path, ".pb.go") || strings.HasSuffix(path, ".pb.gw.go") {
				return nil
			}
			f, err := parseFile(fset, path)
			if err != nil {
				return err
			}
			rel, _ := filepath.Rel(ctx.Repo, path)
			for _, d := range f.Decls {
				fd, ok := d.(*ast.FuncDecl)
				if !ok || fd.Body == nil {
					continue
				}
				ast.Inspect(fd.Body, func(n ast.Node) bool {
					c, ok := n.(*ast.CallExpr)
					if !ok {
						return true
					}
					via := selName(c.Fun)
					var s prefixSite
					switch {
					case (via == "sdk.KVStorePrefixIterator" || via == "sdk.KVStoreReversePrefixIterator" || via == "prefix.NewStore") && len(c.Args) == 2:
						s = prefixSite{Via: strings.TrimPrefix(via, "sdk."), Arg: printNode(fset, c.Args[1])}
						s.Kind, s.Terminated = classifyPrefix(fd, c.Args[1], 0)
					case len(c.Args) == 2 && (strings.HasSuffix(via, ".Iterator") || strings.HasSuffix(via, ".ReverseIterator")):
						sel := c.Fun.(*ast.SelectorExpr)
						s = prefixSite{Via: sel.Sel.Name, Arg: printNode(fset, sel.X) + "(" + printNode(fset, c.Args[0]) + ", " + printNode(fset, c.Args[1]) + ")"}
						if isIdent(c.Args[0], "nil") && isIdent(c.Args[1], "nil") {
							s.Kind, s.Terminated = "fullRange", true
							if id, ok := sel.X.(*ast.Ident); ok {
								if rhs := localRHS(fd, id.Name); rhs != nil {
									s.Arg = printNode(fset, rhs) + "(nil, nil)"
								}
							}
						} else {
							s.Kind = "other"
						}
					default:
						return true
					}
					s.File, s.Func = rel, fd.Name.Name
					s.ID = s.File + ":" + s.Func + ":" + s.Via + ":" + s.Arg
					sites = append(sites, s)
					return true
				})
			}
			return nil
		})
		if err != nil {
			return err
		}
	}
	sort.SliceStable(sites, func(i, j int) bool { return sites[i].ID < sites[j].ID })
	// expected inventory
	expected := map[string]bool{}
	if ctx.Root != "" {
		if b, err := os.ReadFile(filepath.Join(ctx.Root, "props", "C19.json")); err == nil {
			var p struct {
				Sites []string `json:"prefix_sites"`
			}
			if json.Unmarshal(b, &p) == nil {
				for _, s := range p.Sites {
					expected[s] = true
				}
			}
		}
	}
	var sb strings.Builder
	sb.WriteString(leanHeader)
	sb.WriteString("-- source: every non-test .go file below x/xibc and x/aggregate; expected inventory: props/C19.json \"prefix_sites\"\n")
	sb.WriteString("import TeleportModel.Model.Host\nnamespace TM.Generated.PrefixSites\nopen TM TM.Host\n\n")
	var rows []string
	for i := range sites {
		s := &sites[i]
		s.Known = expected[s.ID]
		note := ""
		if !s.Known {
			note = " /- NOT in the expected inventory -/"
			fmt.Printf("gofacts: prefix site not in the expected inventory (props/C19.json prefix_sites): %s [%s, terminated=%v]\n", s.ID, s.Kind, s.Terminated)
		}
		if (s.Kind == "sprintf" || s.Kind == "concat") && !s.Terminated {
			fmt.Printf("gofacts: prefix built from a name WITHOUT closing separator: %s\n", s.ID)
		}
		rows = append(rows, fmt.Sprintf("  { id := %q, kind := .%s, terminated := %v, known := %v }%s", s.ID, s.Kind, s.Terminated, s.Known, note))
	}
	fmt.Fprintf(&sb, "def sites : List PrefixSite := [\n%s]\n\nend TM.Generated.PrefixSites\n", strings.Join(rows, ",\n"))
	ctx.Fact("prefixsites", sites)
	return ctx.Emit("PrefixSites.lean", sb.String())
}
