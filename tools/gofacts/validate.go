package main

// Extractor "validate": identifier rules of x/xibc/core/host/validate.go — the character class of the IsValidID
// regular expression, the length bounds, and the sequence of checks of defaultIdentifierValidator.

import (
	"fmt"
	"go/ast"
	"go/token"
	"path/filepath"
	"strings"
)

func init() { register(Extractor{Name: "validate", Run: runValidate}) }

type charRange struct {
	Lo byte `json:"lo"`
	Hi byte `json:"hi"`
}

// parseIDRegexp accepts exactly `^[class]+$` where class is made of single characters, escaped characters
// and a-b ranges of ASCII characters.
func parseIDRegexp(re string) ([]charRange, error) {
	if !strings.HasPrefix(re, "^[") || !strings.HasSuffix(re, "]+$") {
		return nil, fmt.Errorf("identifier regexp %q is not of the form ^[class]+$", re)
	}
	body := re[2 : len(re)-3]
	var items []byte
	var esc []bool
	for i := 0; i < len(body); i++ {
		c := body[i]
		if c >= 0x80 {
			return nil, fmt.Errorf("identifier regexp %q contains non-ASCII characters", re)
		}
		if c == '\\' {
			i++
			if i >= len(body) {
				return nil, fmt.Errorf("identifier regexp %q ends in a backslash", re)
			}
			c = body[i]
			if (c >= 'a' && c <= 'z') || (c >= 'A' && c <= 'Z') || (c >= '0' && c <= '9') {
				return nil, fmt.Errorf("identifier regexp %q uses the escape class \\%c, which is not expressible", re, c)
			}
			items = append(items, c)
			esc = append(esc, true)
			continue
		}
		if c == '[' || c == ']' || c == '^' {
			return nil, fmt.Errorf("identifier regexp %q: unescaped %q inside the class is not expressible", re, c)
		}
		items = append(items, c)
		esc = append(esc, false)
	}
	var out []charRange
	for i := 0; i < len(items); i++ {
		if i+2 < len(items) && items[i+1] == '-' && !esc[i+1] {
			if items[i] > items[i+2] {
				return nil, fmt.Errorf("identifier regexp %q: bad range", re)
			}
			out = append(out, charRange{items[i], items[i+2]})
			i += 2
			continue
		}
		if items[i] == '-' && !esc[i] && i != 0 && i != len(items)-1 {
			return nil, fmt.Errorf("identifier regexp %q: ambiguous '-'", re)
		}
		out = append(out, charRange{items[i], items[i]})
	}
	if len(out) == 0 {
		return nil, fmt.Errorf("identifier regexp %q: empty class", re)
	}
	return out, nil
}

// condKind classifies one `if cond { return err }` of defaultIdentifierValidator
func condKind(c ast.Expr) (string, bool) {
	switch x := c.(type) {
	case *ast.BinaryExpr:
		if x.Op == token.EQL {
			if call, ok := x.X.(*ast.CallExpr); ok && selName(call.Fun) == "strings.TrimSpace" {
				if s, ok := stringLit(x.Y); ok && s == "" {
					return "blank", true
				}
			}
		}
		if x.Op == token.LOR {
			l, ok1 := x.X.(*ast.BinaryExpr)
			r, ok2 := x.Y.(*ast.BinaryExpr)
			if ok1 && ok2 && l.Op == token.LSS && r.Op == token.GTR && isLenOf(l.X, "id") && isLenOf(r.X, "id") && isIdent(l.Y, "min") && isIdent(r.Y, "max") {
				return "lenRange", true
			}
		}
	case *ast.CallExpr:
		if selName(x.Fun) == "strings.Contains" && len(x.Args) == 2 && isIdent(x.Args[0], "id") {
			if s, ok := stringLit(x.Args[1]); ok && s == "/" {
				return "noSlash", true
			}
		}
	case *ast.UnaryExpr:
		if x.Op == token.NOT {
			if call, ok := x.X.(*ast.CallExpr); ok && selName(call.Fun) == "IsValidID" && len(call.Args) == 1 && isIdent(call.Args[0], "id") {
				return "charClass", true
			}
		}
	}
	return "", false
}

func isIdent(e ast.Expr, n string) bool {
	id, ok := e.(*ast.Ident)
	return ok && id.Name == n
}

func isLenOf(e ast.Expr, n string) bool {
	c, ok := e.(*ast.CallExpr)
	return ok && isIdent(c.Fun, "len") && len(c.Args) == 1 && isIdent(c.Args[0], n)
}

func runValidate(ctx *Ctx) error {
	fset := token.NewFileSet()
	path := filepath.Join(ctx.Repo, "x/xibc/core/host/validate.go")
	f, err := parseFile(fset, path)
	if err != nil {
		return err
	}
	ints := map[string]int{}
	var idRe string
	funcs := map[string]*ast.FuncDecl{}
	for _, d := range f.Decls {
		switch x := d.(type) {
		case *ast.GenDecl:
			for _, s := range x.Specs {
				vs, ok := s.(*ast.ValueSpec)
				if !ok {
					continue
				}
				for i, n := range vs.Names {
					if i >= len(vs.Values) {
						continue
					}
					if v, ok := intLit(vs.Values[i]); ok {
						ints[n.Name] = v
					}
					if n.Name == "IsValidID" {
						// regexp.MustCompile(`...`).MatchString
						sel, ok := vs.Values[i].(*ast.SelectorExpr)
						if !ok || sel.Sel.Name != "MatchString" {
							return fmt.Errorf("%s: IsValidID is not regexp.MustCompile(...).MatchString", posOf(fset, vs))
						}
						call, ok := sel.X.(*ast.CallExpr)
						if !ok || selName(call.Fun) != "regexp.MustCompile" || len(call.Args) != 1 {
							return fmt.Errorf("%s: IsValidID is not regexp.MustCompile(...).MatchString", posOf(fset, vs))
						}
						re, ok := stringLit(call.Args[0])
						if !ok {
							return fmt.Errorf("%s: IsValidID pattern is not a literal", posOf(fset, vs))
						}
						idRe = re
					}
				}
			}
		case *ast.FuncDecl:
			funcs[x.Name.Name] = x
		}
	}
	if idRe == "" {
		return fmt.Errorf("%s: IsValidID not found", path)
	}
	class, err := parseIDRegexp(idRe)
	if err != nil {
		return err
	}
	def, ok := funcs["defaultIdentifierValidator"]
	if !ok {
		return fmt.Errorf("%s: defaultIdentifierValidator not found", path)
	}
	var pn []string
	for _, p := range def.Type.Params.List {
		for _, n := range p.Names {
			pn = append(pn, n.Name)
		}
	}
	if strings.Join(pn, ",") != "id,min,max" {
		return fmt.Errorf("%s: defaultIdentifierValidator parameters are %v, expected id,min,max", posOf(fset, def), pn)
	}
	var checks []string
	for i, st := range def.Body.List {
		if i == len(def.Body.List)-1 {
			r, ok := st.(*ast.ReturnStmt)
			if !ok || len(r.Results) != 1 || !isIdent(r.Results[0], "nil") {
				return fmt.Errorf("%s: defaultIdentifierValidator does not end in `return nil`", posOf(fset, st))
			}
			break
		}
		is, ok := st.(*ast.IfStmt)
		if !ok || is.Init != nil || is.Else != nil || len(is.Body.List) != 1 {
			return fmt.Errorf("%s: unexpected statement in defaultIdentifierValidator", posOf(fset, st))
		}
		if _, ok := is.Body.List[0].(*ast.ReturnStmt); !ok {
			return fmt.Errorf("%s: check that does not return an error", posOf(fset, st))
		}
		k, ok := condKind(is.Cond)
		if !ok {
			return fmt.Errorf("%s: condition of defaultIdentifierValidator is not one of the modelled checks", posOf(fset, is))
		}
		checks = append(checks, k)
	}
	// wrappers: XValidator(id) = defaultIdentifierValidator(id, MIN, MAX)
	type wrap struct {
		Name     string `json:"name"`
		Min, Max int
	}
	var wraps []wrap
	for _, n := range []string{"ClientIdentifierValidator", "SrcChainValidator", "DstChainValidator"} {
		fd, ok := funcs[n]
		if !ok {
			return fmt.Errorf("%s: %s not found", path, n)
		}
		if len(fd.Body.List) != 1 {
			return fmt.Errorf("%s: %s is not a single return", posOf(fset, fd), n)
		}
		r, ok := fd.Body.List[0].(*ast.ReturnStmt)
		if !ok || len(r.Results) != 1 {
			return fmt.Errorf("%s: %s is not a single return", posOf(fset, fd), n)
		}
		c, ok := r.Results[0].(*ast.CallExpr)
		if !ok || !isIdent(c.Fun, "defaultIdentifierValidator") || len(c.Args) != 3 || !isIdent(c.Args[0], "id") {
			return fmt.Errorf("%s: %s does not delegate to defaultIdentifierValidator(id, min, max)", posOf(fset, fd), n)
		}
		val := func(e ast.Expr) (int, error) {
			if v, ok := intLit(e); ok {
				return v, nil
			}
			if id, ok := e.(*ast.Ident); ok {
				if v, ok := ints[id.Name]; ok {
					return v, nil
				}
			}
			return 0, fmt.Errorf("%s: bound of %s is not an integer constant", posOf(fset, e), n)
		}
		mn, err := val(c.Args[1])
		if err != nil {
			return err
		}
		mx, err := val(c.Args[2])
		if err != nil {
			return err
		}
		wraps = append(wraps, wrap{n, mn, mx})
	}
	var sb strings.Builder
	sb.WriteString(leanHeader)
	sb.WriteString("-- source: x/xibc/core/host/validate.go\n")
	sb.WriteString("import TeleportModel.Model.Host\nnamespace TM.Generated.Validate\nopen TM TM.Host\n\n")
	fmt.Fprintf(&sb, "/-- character class of IsValidID = %s -/\ndef idClass : List (UInt8 × UInt8) := [", leanComment(idRe))
	for i, r := range class {
		if i > 0 {
			sb.WriteString(", ")
		}
		fmt.Fprintf(&sb, "(%d, %d)", r.Lo, r.Hi)
	}
	sb.WriteString("]\n\n")
	var cs []string
	for _, c := range checks {
		cs = append(cs, "."+c)
	}
	fmt.Fprintf(&sb, "/-- checks of defaultIdentifierValidator, in source order -/\ndef idChecks : List IdCheck := [%s]\n\n", strings.Join(cs, ", "))
	for _, w := range wraps {
		id, _ := leanIdent(w.Name)
		fmt.Fprintf(&sb, "def %s : IdRule := { checks := idChecks, cls := idClass, min := %d, max := %d }\n", id, w.Min, w.Max)
	}
	sb.WriteString("\nend TM.Generated.Validate\n")
	ctx.Fact("validate", map[string]interface{}{"regexp": idRe, "class": class, "checks": checks, "validators": wraps})
	return ctx.Emit("Validate.lean", sb.String())
}
