module gofacts

go 1.23
