package main

// Extractor "hostkeys": store path templates of x/xibc/core/host/keys.go (every function of the file must be
// expressible) and the key helpers of the Tendermint client store. A template is a list of segments:
// literal bytes / a string parameter / a uint64 parameter printed with %d / the 8-byte big-endian revision
// number or revision height of a Height parameter / a Height printed with %s.

import (
	"fmt"
	"go/ast"
	"go/token"
	"path/filepath"
	"strings"
)

func init() { register(Extractor{Name: "hostkeys", Run: runHostKeys}) }

type seg struct {
	Kind  string `json:"kind"` // lit | str | dec | revBE | heightBE | heightStr
	Lit   []byte `json:"-"`
	LitS  string `json:"lit,omitempty"`
	Param int    `json:"param"`
}

type kparam struct {
	Name string `json:"name"`
	Ty   string `json:"type"` // str | u64 | height
}

type kfunc struct {
	Name   string   `json:"name"`
	Params []kparam `json:"params"`
	Segs   []seg    `json:"segments"`
}

// symbolic value of an expression inside a key function
type sval struct {
	segs []seg
	// a 16-byte scratch buffer filled by binary.BigEndian.PutUint64 (idiom of bigEndianHeightBytes)
	isBuf bool
	slots map[int]seg
	size  int
}

type keyPkg struct {
	fset   *token.FileSet
	consts map[string][]byte
	decls  map[string]*ast.FuncDecl
	done   map[string]*kfunc
	busy   map[string]bool
	// imported packages whose key functions may be called as pkg.F(...)
	imports map[string]*keyPkg
	// lenient: unknown parameter types are tolerated as long as the key expression does not use them
	lenient bool
}

func newKeyPkg(fset *token.FileSet) *keyPkg {
	return &keyPkg{fset: fset, consts: map[string][]byte{}, decls: map[string]*ast.FuncDecl{}, done: map[string]*kfunc{}, busy: map[string]bool{}, imports: map[string]*keyPkg{}}
}

func (p *keyPkg) load(f *ast.File) error {
	// two passes so that constants may refer to earlier constants
	for _, d := range f.Decls {
		gd, ok := d.(*ast.GenDecl)
		if !ok || (gd.Tok != token.CONST && gd.Tok != token.VAR) {
			continue
		}
		for _, s := range gd.Specs {
			vs := s.(*ast.ValueSpec)
			for i, n := range vs.Names {
				if i >= len(vs.Values) {
					continue
				}
				if b, ok := p.constBytes(vs.Values[i]); ok {
					p.consts[n.Name] = b
				}
			}
		}
	}
	for _, d := range f.Decls {
		if fd, ok := d.(*ast.FuncDecl); ok && fd.Recv == nil {
			p.decls[fd.Name.Name] = fd
		}
	}
	return nil
}

// constBytes: "lit", OtherConst, []byte("lit"), A + B
func (p *keyPkg) constBytes(e ast.Expr) ([]byte, bool) {
	switch x := e.(type) {
	case *ast.BasicLit:
		if s, ok := stringLit(x); ok {
			return []byte(s), true
		}
	case *ast.Ident:
		b, ok := p.consts[x.Name]
		return b, ok
	case *ast.ParenExpr:
		return p.constBytes(x.X)
	case *ast.BinaryExpr:
		if x.Op == token.ADD {
			a, ok1 := p.constBytes(x.X)
			b, ok2 := p.constBytes(x.Y)
			if ok1 && ok2 {
				return append(append([]byte{}, a...), b...), true
			}
		}
	case *ast.CallExpr:
		if isByteSliceType(x.Fun) && len(x.Args) == 1 {
			return p.constBytes(x.Args[0])
		}
	case *ast.SelectorExpr:
		if id, ok := x.X.(*ast.Ident); ok {
			if ip, ok := p.imports[id.Name]; ok {
				b, ok := ip.consts[x.Sel.Name]
				return b, ok
			}
		}
	}
	return nil, false
}

func isByteSliceType(e ast.Expr) bool {
	at, ok := e.(*ast.ArrayType)
	if !ok || at.Len != nil {
		return false
	}
	id, ok := at.Elt.(*ast.Ident)
	return ok && id.Name == "byte"
}

func paramType(e ast.Expr) (string, bool) {
	switch x := e.(type) {
	case *ast.Ident:
		switch x.Name {
		case "string":
			return "str", true
		case "uint64":
			return "u64", true
		}
	case *ast.ArrayType:
		if isByteSliceType(x) {
			return "str", true
		}
	case *ast.SelectorExpr:
		if id, ok := x.X.(*ast.Ident); ok {
			switch id.Name + "." + x.Sel.Name {
			case "exported.Height", "clienttypes.Height":
				return "height", true
			case "common.Hash":
				return "hash", true
			}
		}
	}
	return "", false
}

// paramTypeLenient: parameters a key expression never uses (stores, codecs, …) are tolerated as "other";
// a struct with a Height field (bsc Signer) is "signer"
func paramTypeLenient(e ast.Expr) string {
	if t, ok := paramType(e); ok {
		return t
	}
	if id, ok := e.(*ast.Ident); ok && id.Name == "Signer" {
		return "signer"
	}
	return "other"
}

type kenv struct {
	p      *keyPkg
	fn     *ast.FuncDecl
	params map[string]int
	ptys   []kparam
	locals map[string]*sval
}

func (p *keyPkg) errf(n ast.Node, format string, a ...interface{}) error {
	return fmt.Errorf("%s: %s", posOf(p.fset, n), fmt.Sprintf(format, a...))
}

// eval translates the function `name`; every statement and expression form outside the small supported
// language is an error.
func (p *keyPkg) eval(name string) (*kfunc, error) {
	if k, ok := p.done[name]; ok {
		return k, nil
	}
	fd, ok := p.decls[name]
	if !ok {
		return nil, fmt.Errorf("key function %s not found", name)
	}
	if p.busy[name] {
		return nil, p.errf(fd, "recursive key function %s", name)
	}
	p.busy[name] = true
	defer delete(p.busy, name)
	env := &kenv{p: p, fn: fd, params: map[string]int{}, locals: map[string]*sval{}}
	for _, f := range fd.Type.Params.List {
		ty, ok := paramType(f.Type)
		if !ok && p.lenient {
			ty, ok = paramTypeLenient(f.Type), true
		}
		if !ok {
			return nil, p.errf(f, "%s: unsupported parameter type", name)
		}
		for _, n := range f.Names {
			env.params[n.Name] = len(env.ptys)
			env.ptys = append(env.ptys, kparam{Name: n.Name, Ty: ty})
		}
	}
	if fd.Type.Results == nil || len(fd.Type.Results.List) != 1 {
		return nil, p.errf(fd, "%s: expected exactly one result", name)
	}
	res := fd.Type.Results.List[0]
	if id, ok := res.Type.(*ast.Ident); !(ok && id.Name == "string") && !isByteSliceType(res.Type) {
		return nil, p.errf(res, "%s: result must be string or []byte", name)
	}
	for _, n := range res.Names {
		env.locals[n.Name] = &sval{}
	}
	var ret *sval
	for i, st := range fd.Body.List {
		switch s := st.(type) {
		case *ast.ReturnStmt:
			if i != len(fd.Body.List)-1 {
				return nil, p.errf(s, "%s: return before the end of the function", name)
			}
			if len(s.Results) == 0 && len(res.Names) == 1 {
				ret = env.locals[res.Names[0].Name]
			} else if len(s.Results) == 1 {
				v, err := env.expr(s.Results[0])
				if err != nil {
					return nil, err
				}
				ret = v
			} else {
				return nil, p.errf(s, "%s: unsupported return", name)
			}
		case *ast.AssignStmt:
			if len(s.Lhs) != 1 || len(s.Rhs) != 1 {
				return nil, p.errf(s, "%s: unsupported assignment", name)
			}
			id, ok := s.Lhs[0].(*ast.Ident)
			if !ok {
				return nil, p.errf(s, "%s: unsupported assignment target", name)
			}
			if s.Tok == token.ASSIGN {
				if _, ok := env.locals[id.Name]; !ok {
					return nil, p.errf(s, "%s: assignment to unknown variable %s", name, id.Name)
				}
			} else if s.Tok != token.DEFINE {
				return nil, p.errf(s, "%s: unsupported assignment operator", name)
			}
			v, err := env.expr(s.Rhs[0])
			if err != nil {
				return nil, err
			}
			env.locals[id.Name] = v
		case *ast.ExprStmt:
			// binary.BigEndian.PutUint64(buf[off:], h.GetRevisionNumber()/GetRevisionHeight())
			if err := env.putUint64(s.X); err != nil {
				return nil, err
			}
		default:
			return nil, p.errf(st, "%s: unsupported statement %T", name, st)
		}
	}
	if ret == nil {
		return nil, p.errf(fd, "%s: no return value", name)
	}
	segs, err := env.flatten(fd, ret)
	if err != nil {
		return nil, err
	}
	k := dropUnused(&kfunc{Name: name, Params: env.ptys, Segs: mergeLits(segs)})
	p.done[name] = k
	return k, nil
}

// evalLocal translates the right-hand side of `<local> := <key expression>` inside function `fn` (used for keys
// that are built inline, e.g. bsc DeleteSigner); emitted under the name `as`
func (p *keyPkg) evalLocal(fn, local, as string) (*kfunc, error) {
	fd, ok := p.decls[fn]
	if !ok {
		return nil, fmt.Errorf("function %s not found", fn)
	}
	env := &kenv{p: p, fn: fd, params: map[string]int{}, locals: map[string]*sval{}}
	for _, f := range fd.Type.Params.List {
		ty := paramTypeLenient(f.Type)
		for _, n := range f.Names {
			env.params[n.Name] = len(env.ptys)
			env.ptys = append(env.ptys, kparam{Name: n.Name, Ty: ty})
		}
	}
	var rhs ast.Expr
	ast.Inspect(fd.Body, func(n ast.Node) bool {
		as, ok := n.(*ast.AssignStmt)
		if ok && len(as.Lhs) == 1 && len(as.Rhs) == 1 {
			if id, ok := as.Lhs[0].(*ast.Ident); ok && id.Name == local && rhs == nil {
				rhs = as.Rhs[0]
			}
		}
		return true
	})
	if rhs == nil {
		return nil, p.errf(fd, "%s: local key variable %s not found", fn, local)
	}
	v, err := env.expr(rhs)
	if err != nil {
		return nil, err
	}
	segs, err := env.flatten(fd, v)
	if err != nil {
		return nil, err
	}
	return dropUnused(&kfunc{Name: as, Params: env.ptys, Segs: mergeLits(segs)}), nil
}

// dropUnused removes parameters of kind "other" (never referenced by a segment) and renumbers the rest
func dropUnused(k *kfunc) *kfunc {
	remap := map[int]int{}
	var ps []kparam
	for i, q := range k.Params {
		if q.Ty == "other" {
			continue
		}
		remap[i] = len(ps)
		if q.Ty == "signer" {
			q.Ty = "height"
		}
		ps = append(ps, q)
	}
	var ss []seg
	for _, s := range k.Segs {
		if s.Kind != "lit" {
			s.Param = remap[s.Param]
		}
		ss = append(ss, s)
	}
	return &kfunc{Name: k.Name, Params: ps, Segs: ss}
}

func (e *kenv) flatten(n ast.Node, v *sval) ([]seg, error) {
	if !v.isBuf {
		return v.segs, nil
	}
	var out []seg
	for off := 0; off < v.size; off += 8 {
		s, ok := v.slots[off]
		if !ok {
			return nil, e.p.errf(n, "scratch buffer not completely filled (offset %d)", off)
		}
		out = append(out, s)
	}
	return out, nil
}

func mergeLits(in []seg) []seg {
	var out []seg
	for _, s := range in {
		if s.Kind == "lit" {
			if len(s.Lit) == 0 {
				continue
			}
			if n := len(out); n > 0 && out[n-1].Kind == "lit" {
				out[n-1].Lit = append(append([]byte{}, out[n-1].Lit...), s.Lit...)
				out[n-1].LitS = string(out[n-1].Lit)
				continue
			}
		}
		s.LitS = string(s.Lit)
		out = append(out, s)
	}
	return out
}

func lit(b []byte) *sval { return &sval{segs: []seg{{Kind: "lit", Lit: b}}} }

// heightPart recognises h.GetRevisionNumber() / h.GetRevisionHeight() on a Height parameter
func (e *kenv) heightPart(x ast.Expr) (seg, bool) {
	c, ok := x.(*ast.CallExpr)
	if !ok || len(c.Args) != 0 {
		return seg{}, false
	}
	sel, ok := c.Fun.(*ast.SelectorExpr)
	if !ok {
		return seg{}, false
	}
	id, ok := sel.X.(*ast.Ident)
	if !ok {
		return seg{}, false
	}
	i, ok := e.params[id.Name]
	if !ok || e.ptys[i].Ty != "height" {
		return seg{}, false
	}
	switch sel.Sel.Name {
	case "GetRevisionNumber":
		return seg{Kind: "revBE", Param: i}, true
	case "GetRevisionHeight":
		return seg{Kind: "heightBE", Param: i}, true
	}
	return seg{}, false
}

func selName(x ast.Expr) string {
	switch s := x.(type) {
	case *ast.Ident:
		return s.Name
	case *ast.SelectorExpr:
		return selName(s.X) + "." + s.Sel.Name
	}
	return "?"
}

func (e *kenv) putUint64(x ast.Expr) error {
	c, ok := x.(*ast.CallExpr)
	if !ok || selName(c.Fun) != "binary.BigEndian.PutUint64" || len(c.Args) != 2 {
		return e.p.errf(x, "unsupported expression statement")
	}
	off := 0
	var bufName string
	switch t := c.Args[0].(type) {
	case *ast.Ident:
		bufName = t.Name
	case *ast.SliceExpr:
		id, ok := t.X.(*ast.Ident)
		lo, ok2 := intLit(t.Low)
		if !ok || !ok2 || t.High != nil || t.Max != nil {
			return e.p.errf(x, "unsupported slice expression in PutUint64")
		}
		bufName, off = id.Name, lo
	default:
		return e.p.errf(x, "unsupported PutUint64 target")
	}
	b, ok := e.locals[bufName]
	if !ok || !b.isBuf || off%8 != 0 || off+8 > b.size {
		return e.p.errf(x, "PutUint64 target is not a scratch buffer slot")
	}
	s, ok := e.heightPart(c.Args[1])
	if !ok {
		return e.p.errf(x, "PutUint64 value is not a revision number / height of a Height parameter")
	}
	b.slots[off] = s
	return nil
}

func (e *kenv) expr(x ast.Expr) (*sval, error) {
	p := e.p
	switch t := x.(type) {
	case *ast.BasicLit:
		if s, ok := stringLit(t); ok {
			return lit([]byte(s)), nil
		}
	case *ast.ParenExpr:
		return e.expr(t.X)
	case *ast.Ident:
		if v, ok := e.locals[t.Name]; ok {
			return v, nil
		}
		if i, ok := e.params[t.Name]; ok {
			if e.ptys[i].Ty != "str" {
				return nil, p.errf(x, "parameter %s used as a string", t.Name)
			}
			return &sval{segs: []seg{{Kind: "str", Param: i}}}, nil
		}
		if b, ok := p.consts[t.Name]; ok {
			return lit(b), nil
		}
	case *ast.SelectorExpr:
		if b, ok := p.constBytes(t); ok {
			return lit(b), nil
		}
	case *ast.BinaryExpr:
		if t.Op == token.ADD {
			a, err := e.expr(t.X)
			if err != nil {
				return nil, err
			}
			b, err := e.expr(t.Y)
			if err != nil {
				return nil, err
			}
			return e.concat(x, a, b)
		}
	case *ast.CallExpr:
		return e.call(t)
	}
	return nil, p.errf(x, "unsupported expression %T in key function %s", x, e.fn.Name.Name)
}

func (e *kenv) concat(n ast.Node, a, b *sval) (*sval, error) {
	as, err := e.flatten(n, a)
	if err != nil {
		return nil, err
	}
	bs, err := e.flatten(n, b)
	if err != nil {
		return nil, err
	}
	return &sval{segs: append(append([]seg{}, as...), bs...)}, nil
}

func (e *kenv) call(c *ast.CallExpr) (*sval, error) {
	p := e.p
	// conversions
	if isByteSliceType(c.Fun) && len(c.Args) == 1 {
		return e.expr(c.Args[0])
	}
	if id, ok := c.Fun.(*ast.Ident); ok && id.Name == "string" && len(c.Args) == 1 {
		return e.expr(c.Args[0])
	}
	name := selName(c.Fun)
	switch name {
	case "make":
		if len(c.Args) == 2 && isByteSliceType(c.Args[0]) {
			if n, ok := intLit(c.Args[1]); ok && n%8 == 0 && n > 0 {
				return &sval{isBuf: true, size: n, slots: map[int]seg{}}, nil
			}
		}
		return nil, p.errf(c, "unsupported make")
	case "append":
		if len(c.Args) != 2 || !c.Ellipsis.IsValid() {
			return nil, p.errf(c, "unsupported append form (want append(x, y...))")
		}
		a, err := e.expr(c.Args[0])
		if err != nil {
			return nil, err
		}
		b, err := e.expr(c.Args[1])
		if err != nil {
			return nil, err
		}
		return e.concat(c, a, b)
	case "sdk.Uint64ToBigEndian":
		if len(c.Args) == 1 {
			if s, ok := e.heightPart(c.Args[0]); ok {
				return &sval{segs: []seg{s}}, nil
			}
		}
		return nil, p.errf(c, "Uint64ToBigEndian of something that is not a Height component")
	case "fmt.Sprintf":
		return e.sprintf(c)
	}
	// call of another key function (same package, or imported key package)
	var callee *kfunc
	var err error
	switch f := c.Fun.(type) {
	case *ast.Ident:
		if _, ok := p.decls[f.Name]; !ok {
			return nil, p.errf(c, "call of unknown function %s", f.Name)
		}
		callee, err = p.eval(f.Name)
	case *ast.SelectorExpr:
		id, ok := f.X.(*ast.Ident)
		ip, ok2 := p.imports[id.Name]
		if !ok || !ok2 {
			return nil, p.errf(c, "call of unsupported function %s", name)
		}
		callee, err = ip.eval(f.Sel.Name)
	default:
		return nil, p.errf(c, "unsupported call")
	}
	if err != nil {
		return nil, err
	}
	if len(c.Args) != len(callee.Params) || c.Ellipsis.IsValid() {
		return nil, p.errf(c, "argument count mismatch calling %s", callee.Name)
	}
	strArgs := map[int][]seg{}
	remap := map[int]int{}
	for i, a := range c.Args {
		switch callee.Params[i].Ty {
		case "str":
			v, err := e.expr(a)
			if err != nil {
				return nil, err
			}
			s, err := e.flatten(a, v)
			if err != nil {
				return nil, err
			}
			strArgs[i] = s
		default:
			id, ok := a.(*ast.Ident)
			if !ok {
				return nil, p.errf(a, "argument %d of %s must be a parameter of the caller", i, callee.Name)
			}
			j, ok := e.params[id.Name]
			if !ok || e.ptys[j].Ty != callee.Params[i].Ty {
				return nil, p.errf(a, "argument %d of %s must be a %s parameter of the caller", i, callee.Name, callee.Params[i].Ty)
			}
			remap[i] = j
		}
	}
	var out []seg
	for _, s := range callee.Segs {
		switch s.Kind {
		case "lit":
			out = append(out, s)
		case "str":
			out = append(out, strArgs[s.Param]...)
		default:
			out = append(out, seg{Kind: s.Kind, Param: remap[s.Param]})
		}
	}
	return &sval{segs: out}, nil
}

func (e *kenv) sprintf(c *ast.CallExpr) (*sval, error) {
	p := e.p
	if len(c.Args) == 0 {
		return nil, p.errf(c, "Sprintf without format")
	}
	format, ok := stringLit(c.Args[0])
	if !ok {
		return nil, p.errf(c, "Sprintf format is not a string literal")
	}
	args := c.Args[1:]
	var out []seg
	ai := 0
	for i := 0; i < len(format); i++ {
		ch := format[i]
		if ch != '%' {
			out = append(out, seg{Kind: "lit", Lit: []byte{ch}})
			continue
		}
		i++
		if i >= len(format) {
			return nil, p.errf(c, "format string %q ends inside a verb", format)
		}
		verb := format[i]
		if verb != 's' && verb != 'd' {
			return nil, p.errf(c, "unexpected verb %%%c in path template %q (only %%s and %%d are expressible)", verb, format)
		}
		if ai >= len(args) {
			return nil, p.errf(c, "format string %q has more verbs than arguments", format)
		}
		a := args[ai]
		ai++
		if id, ok := a.(*ast.Ident); ok {
			if j, ok := e.params[id.Name]; ok {
				switch {
				case verb == 'd' && e.ptys[j].Ty == "u64":
					out = append(out, seg{Kind: "dec", Param: j})
					continue
				case verb == 's' && e.ptys[j].Ty == "height":
					out = append(out, seg{Kind: "heightStr", Param: j})
					continue
				case verb == 's' && e.ptys[j].Ty == "str":
					out = append(out, seg{Kind: "str", Param: j})
					continue
				case verb == 's' && e.ptys[j].Ty == "hash":
					out = append(out, seg{Kind: "hashHex", Param: j})
					continue
				}
				return nil, p.errf(c, "verb %%%c applied to parameter %s of type %s", verb, id.Name, e.ptys[j].Ty)
			}
		}
		// signer.Height printed with %s
		if sel, ok := a.(*ast.SelectorExpr); ok && verb == 's' && sel.Sel.Name == "Height" {
			if id, ok := sel.X.(*ast.Ident); ok {
				if j, ok := e.params[id.Name]; ok && e.ptys[j].Ty == "signer" {
					out = append(out, seg{Kind: "heightStr", Param: j})
					continue
				}
			}
		}
		if verb != 's' {
			return nil, p.errf(c, "%%d applied to something that is not a uint64 parameter")
		}
		v, err := e.expr(a)
		if err != nil {
			return nil, err
		}
		s, err := e.flatten(a, v)
		if err != nil {
			return nil, err
		}
		out = append(out, s...)
	}
	if ai != len(args) {
		return nil, p.errf(c, "format string %q has fewer verbs than arguments", format)
	}
	return &sval{segs: out}, nil
}

func leanSeg(s seg) string {
	switch s.Kind {
	case "lit":
		return fmt.Sprintf(".lit %s %s", leanBytes(s.Lit), leanComment(string(s.Lit)))
	default:
		return fmt.Sprintf(".%s %d", s.Kind, s.Param)
	}
}

func leanTemplate(k *kfunc) string {
	var ps, ss []string
	for _, q := range k.Params {
		ps = append(ps, "."+q.Ty)
	}
	for _, s := range k.Segs {
		ss = append(ss, "    "+leanSeg(s))
	}
	return fmt.Sprintf("{ params := [%s],\n    segs := [\n%s] }", strings.Join(ps, ", "), strings.Join(ss, ",\n"))
}

func runHostKeys(ctx *Ctx) error {
	fset := token.NewFileSet()
	hostFile := filepath.Join(ctx.Repo, "x/xibc/core/host/keys.go")
	hf, err := parseFile(fset, hostFile)
	if err != nil {
		return err
	}
	host := newKeyPkg(fset)
	if err := host.load(hf); err != nil {
		return err
	}
	// every function of keys.go must be expressible
	var hostFuncs []*kfunc
	for _, d := range hf.Decls {
		fd, ok := d.(*ast.FuncDecl)
		if !ok || fd.Recv != nil {
			continue
		}
		k, err := host.eval(fd.Name.Name)
		if err != nil {
			return err
		}
		hostFuncs = append(hostFuncs, k)
	}
	// Tendermint client store helpers
	tmFile := filepath.Join(ctx.Repo, "x/xibc/clients/light-clients/tendermint/types/store.go")
	tf, err := parseFile(fset, tmFile)
	if err != nil {
		return err
	}
	tm := newKeyPkg(fset)
	tm.imports["host"] = host
	if err := tm.load(tf); err != nil {
		return err
	}
	var tmFuncs []*kfunc
	for _, n := range []string{"ProcessedTimeKey", "IterationKey"} {
		k, err := tm.eval(n)
		if err != nil {
			return err
		}
		tmFuncs = append(tmFuncs, k)
	}
	// BSC client store: recent-signer keys ("recentSingers/<height as text>"), built in two places
	bf, err := parseFile(fset, filepath.Join(ctx.Repo, "x/xibc/clients/light-clients/bsc/types/store.go"))
	if err != nil {
		return err
	}
	bsc := newKeyPkg(fset)
	bsc.lenient = true
	bsc.imports["host"] = host
	if err := bsc.load(bf); err != nil {
		return err
	}
	var bscFuncs []*kfunc
	k1, err := bsc.eval("keyRecentSinger")
	if err != nil {
		return err
	}
	k2, err := bsc.evalLocal("DeleteSigner", "keyBz", "deleteSignerKey")
	if err != nil {
		return err
	}
	bscFuncs = append(bscFuncs, k1, k2)
	// ETH client store: header index / main root keys
	ef, err := parseFile(fset, filepath.Join(ctx.Repo, "x/xibc/clients/light-clients/eth/types/store.go"))
	if err != nil {
		return err
	}
	eth := newKeyPkg(fset)
	eth.lenient = true
	eth.imports["host"] = host
	if err := eth.load(ef); err != nil {
		return err
	}
	var ethFuncs []*kfunc
	for _, n := range []string{"EthHeaderIndexPath", "EthHeaderIndexKey", "EthRootMainPath", "EthRootMainKey"} {
		k, err := eth.eval(n)
		if err != nil {
			return err
		}
		ethFuncs = append(ethFuncs, k)
	}
	needConst := func(p *keyPkg, n string) ([]byte, error) {
		b, ok := p.consts[n]
		if !ok {
			return nil, fmt.Errorf("constant %s not found (or not a plain string / []byte literal)", n)
		}
		return b, nil
	}
	type cdef struct {
		lean string
		pkg  *keyPkg
		name string
	}
	cdefs := []cdef{
		{"clientStorePrefix", host, "KeyClientStorePrefix"},
		{"clientState", host, "KeyClientState"},
		{"consensusStatePrefix", host, "KeyConsensusStatePrefix"},
		{"nextSeqSendPrefix", host, "KeyNextSeqSendPrefix"},
		{"commitmentPrefix", host, "KeyPacketCommitmentPrefix"},
		{"relayerPrefix", host, "KeyPacketRelayerPrefix"},
		{"ackPrefix", host, "KeyPacketAckPrefix"},
		{"receiptPrefix", host, "KeyPacketReceiptPrefix"},
		{"processedTimeSuffix", tm, "KeyProcessedTime"},
		{"iterateConsensusStatePrefix", tm, "KeyIterateConsensusStatePrefix"},
		{"recentSignersPrefix", bsc, "PrefixKeyRecentSingers"},
		{"pendingValidatorsPrefix", bsc, "PrefixPendingValidators"},
		{"ethHeaderIndexPrefix", eth, "KeyIndexEthHeaderPrefix"},
		{"ethRootMainPrefix", eth, "KeyMainRootPrefix"},
	}
	var sb strings.Builder
	sb.WriteString(leanHeader)
	sb.WriteString("-- source: x/xibc/core/host/keys.go, x/xibc/clients/light-clients/{tendermint,bsc,eth}/types/store.go\n")
	sb.WriteString("import TeleportModel.Model.Host\nnamespace TM.Generated.HostKeys\nopen TM TM.Host\n\n")
	sb.WriteString("def consts : Consts := {\n")
	cj := map[string]string{}
	for i, c := range cdefs {
		b, err := needConst(c.pkg, c.name)
		if err != nil {
			return err
		}
		cj[c.name] = string(b)
		sep := ","
		if i == len(cdefs)-1 {
			sep = ""
		}
		fmt.Fprintf(&sb, "  %s := %s%s %s\n", c.lean, leanBytes(b), sep, leanComment(string(b)))
	}
	sb.WriteString("}\n\n")
	var table []string
	emit := func(prefix string, ks []*kfunc) error {
		for _, k := range ks {
			id, err := leanIdent(k.Name)
			if err != nil {
				return err
			}
			id = prefix + id
			fmt.Fprintf(&sb, "def %s : Template :=\n  %s\n\n", id, leanTemplate(k))
			table = append(table, fmt.Sprintf("  (%q, %s)", prefixName(prefix, k.Name), id))
		}
		return nil
	}
	if err := emit("", hostFuncs); err != nil {
		return err
	}
	if err := emit("tm_", tmFuncs); err != nil {
		return err
	}
	if err := emit("bsc_", bscFuncs); err != nil {
		return err
	}
	if err := emit("eth_", ethFuncs); err != nil {
		return err
	}
	fmt.Fprintf(&sb, "/-- name ↦ template, used by the driver to dispatch `key` operations -/\ndef all : List (String × Template) := [\n%s]\n\nend TM.Generated.HostKeys\n", strings.Join(table, ",\n"))
	ctx.Fact("hostkeys", map[string]interface{}{"constants": cj, "host": hostFuncs, "tendermint": tmFuncs, "bsc": bscFuncs, "eth": ethFuncs})
	return ctx.Emit("HostKeys.lean", sb.String())
}

func prefixName(prefix, n string) string {
	if prefix == "" {
		return n
	}
	return strings.TrimSuffix(prefix, "_") + "." + n
}
