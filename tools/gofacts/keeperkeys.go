package main

// Extractor "keeperkeys": which host key function every point accessor (Get* / Set* / Has* / delete*) of the packet
// keeper uses for its store.Get / Set / Has / Delete, and whether the accessor passes its own parameters to the key
// function UNCHANGED (same parameters, same order, never reassigned) — "getter and setter address the same key for
// the same (src, dst, sequence)" then is an obligation over generated facts. An accessor that only forwards to
// another accessor (k.GetX(ctx, …)) is emitted as a delegate with the same flag.

import (
	"fmt"
	"go/ast"
	"go/token"
	"path/filepath"
	"strings"
)

func init() { register(Extractor{Name: "keeperkeys", Run: runKeeperKeys}) }

type accessorFact struct {
	Func     string `json:"func"`
	Family   string `json:"family"`
	Op       string `json:"op,omitempty"` // get | set | has | delete
	KeyFn    string `json:"key_fn,omitempty"`
	Target   string `json:"delegates_to,omitempty"`
	Verbatim bool   `json:"verbatim"`
	Why      string `json:"why_not_verbatim,omitempty"`
}

func accessorFamily(name string) (string, bool) {
	for _, p := range []string{"Get", "Set", "Has", "delete", "Delete"} {
		if strings.HasPrefix(name, p) && len(name) > len(p) {
			return name[len(p):], true
		}
	}
	return "", false
}

// paramsAfterCtx: names of the parameters after the first one (ctx)
func paramsAfterCtx(fd *ast.FuncDecl) []string {
	var out []string
	for _, f := range fd.Type.Params.List {
		for _, n := range f.Names {
			out = append(out, n.Name)
		}
	}
	if len(out) > 0 {
		out = out[1:]
	}
	return out
}

// modifiedParams: parameters that are assigned to, redeclared, incremented or have their address taken in the body
func modifiedParams(fd *ast.FuncDecl, params []string) map[string]bool {
	isParam := map[string]bool{}
	for _, p := range params {
		isParam[p] = true
	}
	mod := map[string]bool{}
	ast.Inspect(fd.Body, func(n ast.Node) bool {
		switch x := n.(type) {
		case *ast.AssignStmt:
			for _, l := range x.Lhs {
				if id, ok := l.(*ast.Ident); ok && isParam[id.Name] {
					mod[id.Name] = true
				}
			}
		case *ast.IncDecStmt:
			if id, ok := x.X.(*ast.Ident); ok && isParam[id.Name] {
				mod[id.Name] = true
			}
		case *ast.UnaryExpr:
			if x.Op == token.AND {
				if id, ok := x.X.(*ast.Ident); ok && isParam[id.Name] {
					mod[id.Name] = true
				}
			}
		case *ast.RangeStmt:
			for _, e := range []ast.Expr{x.Key, x.Value} {
				if id, ok := e.(*ast.Ident); ok && isParam[id.Name] {
					mod[id.Name] = true
				}
			}
		}
		return true
	})
	return mod
}

// verbatimArgs: args[i] must be the i-th parameter after ctx, and that parameter is never modified
func verbatimArgs(args []ast.Expr, params []string, mod map[string]bool) (bool, string) {
	if len(args) > len(params) {
		return false, "more key arguments than parameters"
	}
	for i, a := range args {
		id, ok := a.(*ast.Ident)
		if !ok {
			return false, fmt.Sprintf("argument %d of the key function is an expression, not the parameter %s", i, params[i])
		}
		if id.Name != params[i] {
			return false, fmt.Sprintf("argument %d of the key function is %s, not the parameter %s", i, id.Name, params[i])
		}
		if mod[id.Name] {
			return false, fmt.Sprintf("parameter %s is modified before it reaches the key function", id.Name)
		}
	}
	return true, ""
}

func runKeeperKeys(ctx *Ctx) error {
	fset := token.NewFileSet()
	hf, err := parseFile(fset, filepath.Join(ctx.Repo, "x/xibc/core/host/keys.go"))
	if err != nil {
		return err
	}
	hostFuncs := map[string]bool{}
	for _, d := range hf.Decls {
		if fd, ok := d.(*ast.FuncDecl); ok && fd.Recv == nil {
			hostFuncs[fd.Name.Name] = true
		}
	}
	path := filepath.Join(ctx.Repo, "x/xibc/core/packet/keeper/keeper.go")
	kf, err := parseFile(fset, path)
	if err != nil {
		return err
	}
	storeOps := map[string]string{"Get": "get", "Set": "set", "Has": "has", "Delete": "delete"}
	var direct []accessorFact
	var pending []*ast.FuncDecl
	for _, d := range kf.Decls {
		fd, ok := d.(*ast.FuncDecl)
		if !ok || fd.Recv == nil || fd.Body == nil {
			continue
		}
		fam, ok := accessorFamily(fd.Name.Name)
		if !ok {
			continue
		}
		params := paramsAfterCtx(fd)
		mod := modifiedParams(fd, params)
		var found []accessorFact
		var ferr error
		ast.Inspect(fd.Body, func(n ast.Node) bool {
			c, ok := n.(*ast.CallExpr)
			if !ok || ferr != nil {
				return ferr == nil
			}
			sel, ok := c.Fun.(*ast.SelectorExpr)
			if !ok {
				return true
			}
			recv, ok := sel.X.(*ast.Ident)
			op, isOp := storeOps[sel.Sel.Name]
			if !ok || recv.Name != "store" || !isOp || len(c.Args) == 0 {
				return true
			}
			name, _, isCall, ok := hostRef(c.Args[0])
			if !ok || !isCall {
				ferr = fmt.Errorf("%s: %s addresses the store with something that is not host.<KeyFunction>(…); not expressible", posOf(fset, c), fd.Name.Name)
				return false
			}
			if !hostFuncs[name] {
				ferr = fmt.Errorf("%s: unknown host key function %s", posOf(fset, c), name)
				return false
			}
			call := c.Args[0]
			if cc, isC := call.(*ast.CallExpr); isC && isByteSliceType(cc.Fun) {
				call = cc.Args[0]
			}
			v, why := verbatimArgs(call.(*ast.CallExpr).Args, params, mod)
			found = append(found, accessorFact{Func: fd.Name.Name, Family: fam, Op: op, KeyFn: name, Verbatim: v, Why: why})
			return true
		})
		if ferr != nil {
			return ferr
		}
		if len(found) > 1 {
			return fmt.Errorf("%s: %s accesses the store more than once; not expressible", posOf(fset, fd), fd.Name.Name)
		}
		if len(found) == 1 {
			direct = append(direct, found[0])
		} else {
			pending = append(pending, fd)
		}
	}
	isAccessor := map[string]bool{}
	for _, a := range direct {
		isAccessor[a.Func] = true
	}
	var delegates []accessorFact
	for _, fd := range pending {
		fam, _ := accessorFamily(fd.Name.Name)
		params := paramsAfterCtx(fd)
		mod := modifiedParams(fd, params)
		ast.Inspect(fd.Body, func(n ast.Node) bool {
			c, ok := n.(*ast.CallExpr)
			if !ok {
				return true
			}
			sel, ok := c.Fun.(*ast.SelectorExpr)
			if !ok {
				return true
			}
			if recv, ok := sel.X.(*ast.Ident); !ok || recv.Name != "k" || !isAccessor[sel.Sel.Name] || len(c.Args) == 0 {
				return true
			}
			v, why := verbatimArgs(c.Args[1:], params, mod)
			delegates = append(delegates, accessorFact{Func: fd.Name.Name, Family: fam, Target: sel.Sel.Name, Verbatim: v, Why: why})
			return true
		})
	}
	if len(direct) == 0 {
		return fmt.Errorf("%s: no point accessor found", path)
	}
	var sb strings.Builder
	sb.WriteString(leanHeader)
	sb.WriteString("-- source: x/xibc/core/packet/keeper/keeper.go (point accessors), x/xibc/core/host/keys.go\n")
	sb.WriteString("import TeleportModel.Model.Host\nimport TeleportModel.Generated.HostKeys\nnamespace TM.Generated.KeeperKeys\nopen TM TM.Host\n\n")
	var rows []string
	for _, a := range direct {
		id, err := leanIdent(a.KeyFn)
		if err != nil {
			return err
		}
		c := ""
		if !a.Verbatim {
			c = " /- " + strings.ReplaceAll(a.Why, "-/", "") + " -/"
		}
		rows = append(rows, fmt.Sprintf("  { fn := %q, family := %q, op := .%s, keyFn := %q, keyT := HostKeys.%s, verbatim := %v }%s", a.Func, a.Family, a.Op, a.KeyFn, id, a.Verbatim, c))
	}
	fmt.Fprintf(&sb, "/-- store.Get / Set / Has / Delete(host.<keyFn>(…)) of the packet keeper; `verbatim` = the accessor's own parameters\n    reach the key function unchanged and in order -/\ndef accessors : List Accessor := [\n%s]\n\n", strings.Join(rows, ",\n"))
	rows = nil
	for _, a := range delegates {
		c := ""
		if !a.Verbatim {
			c = " /- " + strings.ReplaceAll(a.Why, "-/", "") + " -/"
		}
		rows = append(rows, fmt.Sprintf("  { fn := %q, family := %q, target := %q, verbatim := %v }%s", a.Func, a.Family, a.Target, a.Verbatim, c))
	}
	fmt.Fprintf(&sb, "/-- accessors that forward to another accessor -/\ndef delegates : List Delegate := [\n%s]\n\nend TM.Generated.KeeperKeys\n", strings.Join(rows, ",\n"))
	ctx.Fact("keeperkeys", map[string]interface{}{"accessors": direct, "delegates": delegates})
	return ctx.Emit("KeeperKeys.lean", sb.String())
}
