package main

// Extractor "abituples": the ABI tuple layouts of x/xibc/core/packet/types/evm.go (component names and types),
// which Go struct every tuple is packed from / decoded into (the ABIPack / ABIDecode methods of packet.go)
// and the fields of those structs (Go name, JSON name, type) — ABIDecode is Unpack followed by a JSON round
// trip that matches tuple component names against struct JSON names.

import (
	"fmt"
	"go/ast"
	"go/token"
	"path/filepath"
	"reflect"
	"regexp"
	"strings"
)

func init() { register(Extractor{Name: "abituples", Run: runAbiTuples}) }

type abiComp struct {
	Name string `json:"name"`
	Type string `json:"type"`
}

type abiTuple struct {
	Var   string    `json:"var"`
	Comps []abiComp `json:"components"`
}

type goField struct {
	GoName   string `json:"go_name"`
	JSONName string `json:"json_name"`
	Type     string `json:"type"`
}

type abiBinding struct {
	Struct    string `json:"struct"`
	PackTuple string `json:"pack_tuple,omitempty"`
	DecTuple  string `json:"decode_tuple,omitempty"`
	// the method body is exactly the transcribed statement sequence (Pack / Unpack + JSON round trip) and nothing else
	PackPure   bool   `json:"pack_pure"`
	DecodePure bool   `json:"decode_pure"`
	PackWhy    string `json:"pack_not_pure,omitempty"`
	DecodeWhy  string `json:"decode_not_pure,omitempty"`
}

// bodyIsExactly compares the printed statements of a method body with the transcribed shape (regular expressions, one per
// statement); it returns "" or a description of the first deviation
func bodyIsExactly(fset *token.FileSet, fd *ast.FuncDecl, pats []string) string {
	stmts := stmtTexts(fset, fd.Body.List)
	for i, st := range stmts {
		if i >= len(pats) {
			return fmt.Sprintf("additional statement %d: `%s`", i+1, st)
		}
		if !regexp.MustCompile("^" + pats[i] + "$").MatchString(st) {
			return fmt.Sprintf("statement %d is `%s`, the transcribed shape is `%s`", i+1, st, pats[i])
		}
	}
	if len(stmts) < len(pats) {
		return fmt.Sprintf("only %d statements, the transcribed shape has %d", len(stmts), len(pats))
	}
	return ""
}

// ABI element types the Lean model of Pack / Unpack understands
var abiTypes = map[string]string{"uint64": ".uint64", "string": ".str", "bytes": ".bytes"}

// Go field types and the ABI type they correspond to
func goFieldType(e ast.Expr) (string, bool) {
	switch x := e.(type) {
	case *ast.Ident:
		switch x.Name {
		case "uint64":
			return "uint64", true
		case "string":
			return "string", true
		}
	case *ast.ArrayType:
		if isByteSliceType(x) {
			return "bytes", true
		}
	}
	return "", false
}

func extractTuples(fset *token.FileSet, f *ast.File) (map[string]*abiTuple, error) {
	out := map[string]*abiTuple{}
	for _, d := range f.Decls {
		fd, ok := d.(*ast.FuncDecl)
		if !ok || fd.Body == nil {
			continue
		}
		// local := abi.NewType("tuple", "", []abi.ArgumentMarshaling{...}) ; TupleX = local
		locals := map[string]*abiTuple{}
		var err error
		ast.Inspect(fd.Body, func(n ast.Node) bool {
			if err != nil {
				return false
			}
			as, ok := n.(*ast.AssignStmt)
			if !ok {
				return true
			}
			if len(as.Rhs) == 1 {
				if c, ok := as.Rhs[0].(*ast.CallExpr); ok && selName(c.Fun) == "abi.NewType" {
					t, e := parseNewType(fset, c)
					if e != nil {
						err = e
						return false
					}
					id, ok := as.Lhs[0].(*ast.Ident)
					if !ok {
						err = fmt.Errorf("%s: abi.NewType result assigned to a non-identifier", posOf(fset, as))
						return false
					}
					locals[id.Name] = t
					return false
				}
				if lhs, ok := as.Lhs[0].(*ast.Ident); ok && len(as.Lhs) == 1 {
					if rhs, ok := as.Rhs[0].(*ast.Ident); ok {
						if t, ok := locals[rhs.Name]; ok {
							if _, dup := out[lhs.Name]; dup {
								err = fmt.Errorf("%s: tuple variable %s assigned twice", posOf(fset, as), lhs.Name)
								return false
							}
							tt := *t
							tt.Var = lhs.Name
							out[lhs.Name] = &tt
						}
					}
				}
			}
			return true
		})
		if err != nil {
			return nil, err
		}
		for n, t := range locals {
			found := false
			for _, o := range out {
				if reflect.DeepEqual(o.Comps, t.Comps) {
					found = true
				}
			}
			if !found {
				return nil, fmt.Errorf("%s: tuple type %s is never assigned to a package variable", posOf(fset, fd), n)
			}
		}
	}
	return out, nil
}

func parseNewType(fset *token.FileSet, c *ast.CallExpr) (*abiTuple, error) {
	where := posOf(fset, c)
	if len(c.Args) != 3 {
		return nil, fmt.Errorf("%s: abi.NewType with %d arguments", where, len(c.Args))
	}
	if s, ok := stringLit(c.Args[0]); !ok || s != "tuple" {
		return nil, fmt.Errorf("%s: abi.NewType of a non-tuple type is not expressible", where)
	}
	if s, ok := stringLit(c.Args[1]); !ok || s != "" {
		return nil, fmt.Errorf("%s: abi.NewType with an internal type is not expressible", where)
	}
	cl, ok := c.Args[2].(*ast.CompositeLit)
	if !ok {
		return nil, fmt.Errorf("%s: tuple components are not a composite literal", where)
	}
	t := &abiTuple{}
	for _, el := range cl.Elts {
		ec, ok := el.(*ast.CompositeLit)
		if !ok {
			return nil, fmt.Errorf("%s: tuple component is not a composite literal", where)
		}
		var comp abiComp
		for _, kv := range ec.Elts {
			k, ok := kv.(*ast.KeyValueExpr)
			if !ok {
				return nil, fmt.Errorf("%s: positional ArgumentMarshaling literal", where)
			}
			key := k.Key.(*ast.Ident).Name
			val, ok := stringLit(k.Value)
			if !ok {
				return nil, fmt.Errorf("%s: ArgumentMarshaling.%s is not a string literal", where, key)
			}
			switch key {
			case "Name":
				comp.Name = val
			case "Type":
				comp.Type = val
			default:
				return nil, fmt.Errorf("%s: ArgumentMarshaling field %s is not expressible (nested tuples / internal types are not modelled)", where, key)
			}
		}
		if _, ok := abiTypes[comp.Type]; !ok {
			return nil, fmt.Errorf("%s: unknown ABI type %q of component %q (the model knows uint64, string, bytes)", where, comp.Type, comp.Name)
		}
		if comp.Name == "" || !isASCIIPrintable(comp.Name) {
			return nil, fmt.Errorf("%s: component name %q must be non-empty printable ASCII", where, comp.Name)
		}
		t.Comps = append(t.Comps, comp)
	}
	if len(t.Comps) == 0 {
		return nil, fmt.Errorf("%s: empty tuple", where)
	}
	return t, nil
}

// bindings: methods ABIPack / ABIDecode with a body using abi.Arguments{{Type: TupleX}}
func extractBindings(fset *token.FileSet, files map[string]*ast.File, tuples map[string]*abiTuple) (map[string]*abiBinding, error) {
	out := map[string]*abiBinding{}
	for _, fn := range sortedKeys(files) {
		for _, d := range files[fn].Decls {
			fd, ok := d.(*ast.FuncDecl)
			if !ok || fd.Recv == nil || fd.Body == nil || (fd.Name.Name != "ABIPack" && fd.Name.Name != "ABIDecode") {
				continue
			}
			rt := fd.Recv.List[0].Type
			if st, ok := rt.(*ast.StarExpr); ok {
				rt = st.X
			}
			recv := rt.(*ast.Ident).Name
			var used []string
			var calls []string
			ast.Inspect(fd.Body, func(n ast.Node) bool {
				switch x := n.(type) {
				case *ast.KeyValueExpr:
					if k, ok := x.Key.(*ast.Ident); ok && k.Name == "Type" {
						if v, ok := x.Value.(*ast.Ident); ok {
							used = append(used, v.Name)
						}
					}
				case *ast.CallExpr:
					if s, ok := x.Fun.(*ast.SelectorExpr); ok {
						calls = append(calls, s.Sel.Name)
					}
				}
				return true
			})
			if len(used) != 1 {
				return nil, fmt.Errorf("%s: %s.%s does not use exactly one tuple type", posOf(fset, fd), recv, fd.Name.Name)
			}
			if _, ok := tuples[used[0]]; !ok {
				return nil, fmt.Errorf("%s: %s.%s uses unknown tuple %s", posOf(fset, fd), recv, fd.Name.Name, used[0])
			}
			b := out[recv]
			if b == nil {
				b = &abiBinding{Struct: recv}
				out[recv] = b
			}
			has := func(n string) bool {
				for _, c := range calls {
					if c == n {
						return true
					}
				}
				return false
			}
			recvName := "_"
			if len(fd.Recv.List[0].Names) == 1 {
				recvName = fd.Recv.List[0].Names[0].Name
			}
			if fd.Name.Name == "ABIPack" {
				if !has("Pack") {
					return nil, fmt.Errorf("%s: %s.ABIPack does not call Arguments.Pack", posOf(fset, fd), recv)
				}
				b.PackTuple = used[0]
				b.PackWhy = bodyIsExactly(fset, fd, []string{
					identRe + `, err := abi\.Arguments\{\{Type: ` + used[0] + `\}\}\.Pack\(` + recvName + `\)`,
					`if err != nil \{ return nil, err \}`,
					`return ` + identRe + `, nil`,
				})
				b.PackPure = b.PackWhy == ""
			} else {
				b.DecodeWhy = bodyIsExactly(fset, fd, []string{
					identRe + `, err := abi\.Arguments\{\{Type: ` + used[0] + `\}\}\.Unpack\(bz\)`,
					`if err != nil \{ return err \}`,
					identRe + `, err := json\.Marshal\(` + identRe + `\[0\]\)`,
					`if err != nil \{ return err \}`,
					`return json\.Unmarshal\(` + identRe + `, &` + recvName + `\)`,
				})
				b.DecodePure = b.DecodeWhy == ""
				// the decode path the model transcribes: Unpack, json.Marshal, json.Unmarshal
				if !has("Unpack") || !has("Marshal") || !has("Unmarshal") {
					return nil, fmt.Errorf("%s: %s.ABIDecode is no longer Unpack + JSON round trip; the model of the decoder must be revised", posOf(fset, fd), recv)
				}
				b.DecTuple = used[0]
			}
		}
	}
	return out, nil
}

func extractStruct(fset *token.FileSet, files map[string]*ast.File, name string) ([]goField, error) {
	for _, fn := range sortedKeys(files) {
		for _, d := range files[fn].Decls {
			gd, ok := d.(*ast.GenDecl)
			if !ok || gd.Tok != token.TYPE {
				continue
			}
			for _, s := range gd.Specs {
				ts := s.(*ast.TypeSpec)
				if ts.Name.Name != name {
					continue
				}
				st, ok := ts.Type.(*ast.StructType)
				if !ok {
					return nil, fmt.Errorf("%s: %s is not a struct", posOf(fset, ts), name)
				}
				var out []goField
				for _, f := range st.Fields.List {
					if len(f.Names) == 0 {
						return nil, fmt.Errorf("%s: embedded field in %s is not expressible", posOf(fset, f), name)
					}
					ty, ok := goFieldType(f.Type)
					if !ok {
						return nil, fmt.Errorf("%s: field type of %s.%s is not expressible (uint64, string, []byte)", posOf(fset, f), name, f.Names[0].Name)
					}
					for _, n := range f.Names {
						if !ast.IsExported(n.Name) {
							return nil, fmt.Errorf("%s: unexported field %s.%s", posOf(fset, f), name, n.Name)
						}
						jn := n.Name
						if f.Tag != nil {
							tag, _ := stringLit(f.Tag)
							if jt, ok := reflect.StructTag(tag).Lookup("json"); ok {
								if jt == "-" {
									return nil, fmt.Errorf("%s: field %s.%s is hidden from JSON", posOf(fset, f), name, n.Name)
								}
								nm := strings.Split(jt, ",")[0]
								for _, opt := range strings.Split(jt, ",")[1:] {
									if opt != "omitempty" {
										return nil, fmt.Errorf("%s: JSON option %q of %s.%s is not modelled", posOf(fset, f), opt, name, n.Name)
									}
								}
								if nm != "" {
									jn = nm
								}
							}
							if _, ok := reflect.StructTag(tag).Lookup("abi"); ok {
								return nil, fmt.Errorf("%s: `abi` struct tag on %s.%s is not modelled", posOf(fset, f), name, n.Name)
							}
						}
						if !isASCIIPrintable(jn) {
							return nil, fmt.Errorf("%s: JSON name %q is not printable ASCII (Unicode case folding is not modelled)", posOf(fset, f), jn)
						}
						out = append(out, goField{GoName: n.Name, JSONName: jn, Type: ty})
					}
				}
				return out, nil
			}
		}
	}
	return nil, fmt.Errorf("struct %s not found", name)
}

func runAbiTuples(ctx *Ctx) error {
	fset := token.NewFileSet()
	dir := filepath.Join(ctx.Repo, "x/xibc/core/packet/types")
	files, err := parseDir(fset, dir)
	if err != nil {
		return err
	}
	evm, ok := files["evm.go"]
	if !ok {
		return fmt.Errorf("%s/evm.go not found", dir)
	}
	tuples, err := extractTuples(fset, evm)
	if err != nil {
		return err
	}
	if len(tuples) == 0 {
		return fmt.Errorf("no ABI tuple found in evm.go")
	}
	binds, err := extractBindings(fset, files, tuples)
	if err != nil {
		return err
	}
	var sb strings.Builder
	sb.WriteString(leanHeader)
	sb.WriteString("-- source: x/xibc/core/packet/types/{evm.go,packet.go,*.pb.go}\n")
	sb.WriteString("import TeleportModel.Model.Abi\nimport TeleportModel.Model.Json\nnamespace TM.Generated.AbiTuples\nopen TM TM.Abi TM.Json\n\n")
	for _, tv := range sortedKeys(tuples) {
		t := tuples[tv]
		id, err := leanIdent(tv)
		if err != nil {
			return err
		}
		fmt.Fprintf(&sb, "/-- %s -/\ndef %s : Layout := [\n", tv, id)
		for i, c := range t.Comps {
			sep := ","
			if i == len(t.Comps)-1 {
				sep = ""
			}
			fmt.Fprintf(&sb, "  { name := %s, ty := %s }%s %s\n", leanBytes([]byte(c.Name)), abiTypes[c.Type], sep, leanComment(c.Name))
		}
		sb.WriteString("]\n\n")
	}
	structs := map[string][]goField{}
	var rows []string
	used := map[string]bool{}
	for _, sn := range sortedKeys(binds) {
		b := binds[sn]
		fs, err := extractStruct(fset, files, sn)
		if err != nil {
			return err
		}
		structs[sn] = fs
		id, err := leanIdent(sn)
		if err != nil {
			return err
		}
		fmt.Fprintf(&sb, "/-- struct %s -/\ndef %sSchema : Schema := [\n", sn, id)
		for i, f := range fs {
			sep := ","
			if i == len(fs)-1 {
				sep = ""
			}
			fmt.Fprintf(&sb, "  { goName := %s, jsonName := %s, ty := %s }%s /- %s `json:%q` -/\n", leanBytes([]byte(f.GoName)), leanBytes([]byte(f.JSONName)), abiTypes[f.Type], sep, f.GoName, f.JSONName)
		}
		sb.WriteString("]\n\n")
		pt, dt := b.PackTuple, b.DecTuple
		if pt == "" {
			pt = dt
		}
		if dt == "" {
			dt = pt
		}
		if pt != dt {
			return fmt.Errorf("%s: ABIPack uses %s but ABIDecode uses %s", sn, pt, dt)
		}
		used[pt] = true
		tid, _ := leanIdent(pt)
		why := ""
		if w := strings.TrimSpace(b.PackWhy + " " + b.DecodeWhy); w != "" {
			why = " /- " + strings.ReplaceAll(w, "-/", "- /") + " -/"
		}
		rows = append(rows, fmt.Sprintf("  { name := %q, layout := %s, schema := %sSchema, hasPack := %v, hasDecode := %v, packPure := %v, decodePure := %v }%s",
			sn, tid, id, b.PackTuple != "", b.DecTuple != "", b.PackPure || b.PackTuple == "", b.DecodePure || b.DecTuple == "", why))
	}
	fmt.Fprintf(&sb, "/-- struct ↔ tuple bindings (methods ABIPack / ABIDecode of packet.go) -/\ndef bindings : List Binding := [\n%s]\n\nend TM.Generated.AbiTuples\n", strings.Join(rows, ",\n"))
	var unused []string
	for _, tv := range sortedKeys(tuples) {
		if !used[tv] {
			unused = append(unused, tv)
		}
	}
	ctx.Fact("abituples", map[string]interface{}{"tuples": tuples, "bindings": binds, "structs": structs, "tuples_without_methods": unused})
	return ctx.Emit("AbiTuples.lean", sb.String())
}
