package main

// Extractor "parsers": the functions that READ a key or a text form back, each paired with its builder in Lean:
//   clienttypes.Height.String / ParseHeight          (text form "<rev>-<height>", also used as store path)
//   GetHeightFromIterationKey of tendermint / bsc / eth (16 raw bytes after a fixed prefix)
//   packet keeper iterateHashes                        (strings.Split + positions + ParseUint of the last part)
//   host.ParsePath
//   bsc GetRecentSigners / DeleteAllSigner             (strings.Split + ParseHeight of part 1)
// Every function must have exactly the statement shape the Lean interpreter of the emitted record transcribes; the
// numbers / separators / decoders are read from the source. Any other shape (a TrimRight, an Itoa, a dropped
// revision, a different slice) is a hard error of the translator.

import (
	"bytes"
	"fmt"
	"go/ast"
	"go/parser"
	"go/printer"
	"go/token"
	"path/filepath"
	"regexp"
	"strconv"
	"strings"
)

func init() { register(Extractor{Name: "parsers", Run: runParsers}) }

func printNode(fset *token.FileSet, n ast.Node) string {
	var b bytes.Buffer
	_ = printer.Fprint(&b, fset, n)
	return strings.Join(strings.Fields(b.String()), " ")
}

func stmtTexts(fset *token.FileSet, list []ast.Stmt) []string {
	var out []string
	for _, s := range list {
		out = append(out, printNode(fset, s))
	}
	return out
}

func findFunc(f *ast.File, recv, name string) *ast.FuncDecl {
	for _, d := range f.Decls {
		fd, ok := d.(*ast.FuncDecl)
		if !ok || fd.Name.Name != name || fd.Body == nil {
			continue
		}
		if recv == "" && fd.Recv == nil {
			return fd
		}
		if recv != "" && fd.Recv != nil {
			t := fd.Recv.List[0].Type
			if st, ok := t.(*ast.StarExpr); ok {
				t = st.X
			}
			if id, ok := t.(*ast.Ident); ok && id.Name == recv {
				return fd
			}
		}
	}
	return nil
}

// matchSeq matches the statements against the regular expressions, one per statement, and returns all groups
func matchSeq(where string, stmts []string, pats []string) ([][]string, error) {
	if len(stmts) != len(pats) {
		return nil, fmt.Errorf("%s: %d statements where the transcribed shape has %d:\n    %s", where, len(stmts), len(pats), strings.Join(stmts, "\n    "))
	}
	var out [][]string
	for i, p := range pats {
		m := regexp.MustCompile("^" + p + "$").FindStringSubmatch(stmts[i])
		if m == nil {
			return nil, fmt.Errorf("%s: statement %d `%s` is not of the transcribed shape `%s`", where, i+1, stmts[i], p)
		}
		out = append(out, m)
	}
	return out, nil
}

func sepByte(where, lit string) (byte, error) {
	s, err := strconv.Unquote(lit)
	if err != nil || len(s) != 1 {
		return 0, fmt.Errorf("%s: separator %s is not a one-byte string", where, lit)
	}
	return s[0], nil
}

func atoi(s string) int { n, _ := strconv.Atoi(s); return n }

const identRe = `([A-Za-z_]\w*)`

type iterKeyFact struct {
	Client   string `json:"client"`
	Skip     string `json:"skip"`
	RevLo    int    `json:"rev_lo"`
	RevHi    int    `json:"rev_hi"`
	HeightLo int    `json:"height_lo"`
	Decoder  string `json:"decoder"`
}

func extractIterKeyParser(fset *token.FileSet, path, client string, pkg *keyPkg) (*iterKeyFact, error) {
	f, err := parseFile(fset, path)
	if err != nil {
		return nil, err
	}
	fd := findFunc(f, "", "GetHeightFromIterationKey")
	if fd == nil {
		return nil, fmt.Errorf("%s: GetHeightFromIterationKey not found", path)
	}
	where := posOf(fset, fd) + " GetHeightFromIterationKey"
	dec := `(binary\.BigEndian\.Uint64|sdk\.BigEndianToUint64)`
	m, err := matchSeq(where, stmtTexts(fset, fd.Body.List), []string{
		identRe + ` := iterKey\[len\(\[\]byte\((.+)\)\):\]`,
		identRe + ` := ` + identRe + `\[(\d+):(\d+)\]`,
		identRe + ` := ` + identRe + `\[(\d+):\]`,
		identRe + ` := ` + dec + `\(` + identRe + `\)`,
		identRe + ` := ` + dec + `\(` + identRe + `\)`,
		`return clienttypes\.NewHeight\(` + identRe + `, ` + identRe + `\)`,
	})
	if err != nil {
		return nil, err
	}
	all, rev, hgt := m[0][1], m[1][1], m[2][1]
	if m[1][2] != all || m[2][2] != all || m[3][3] != rev || m[4][3] != hgt || m[5][1] != m[3][1] || m[5][2] != m[4][1] || m[3][2] != m[4][2] {
		return nil, fmt.Errorf("%s: the variables are not wired as (revision ← first slice, height ← second slice)", where)
	}
	e, err := parser.ParseExpr(m[0][2])
	if err != nil {
		return nil, fmt.Errorf("%s: %v", where, err)
	}
	skip, ok := pkg.constBytes(e)
	if !ok {
		return nil, fmt.Errorf("%s: skipped prefix %s is not a constant", where, m[0][2])
	}
	d := "binaryBE"
	if strings.HasPrefix(m[3][2], "sdk.") {
		d = "sdkBE"
	}
	return &iterKeyFact{Client: client, Skip: string(skip), RevLo: atoi(m[1][3]), RevHi: atoi(m[1][4]), HeightLo: atoi(m[2][3]), Decoder: d}, nil
}

func runParsers(ctx *Ctx) error {
	fset := token.NewFileSet()
	facts := map[string]interface{}{}
	var sb strings.Builder
	sb.WriteString(leanHeader)
	sb.WriteString("-- source: x/xibc/core/client/types/height.go, x/xibc/core/host/parse.go, x/xibc/core/packet/keeper/keeper.go,\n--         x/xibc/clients/light-clients/{tendermint,bsc,eth}/types/store.go\n")
	sb.WriteString("import TeleportModel.Model.Host\nnamespace TM.Generated.Parsers\nopen TM TM.Host\n\n")

	// ---- Height.String / ParseHeight -------------------------------------------------------------------
	hpath := filepath.Join(ctx.Repo, "x/xibc/core/client/types/height.go")
	hf, err := parseFile(fset, hpath)
	if err != nil {
		return err
	}
	sfd := findFunc(hf, "Height", "String")
	if sfd == nil {
		return fmt.Errorf("%s: Height.String not found", hpath)
	}
	where := posOf(fset, sfd) + " Height.String"
	recvName := "h"
	if len(sfd.Recv.List[0].Names) == 1 {
		recvName = sfd.Recv.List[0].Names[0].Name
	}
	m, err := matchSeq(where, stmtTexts(fset, sfd.Body.List), []string{`return fmt\.Sprintf\((".*?"), (.+)\)`})
	if err != nil {
		return err
	}
	format, err := strconv.Unquote(m[0][1])
	if err != nil {
		return fmt.Errorf("%s: %v", where, err)
	}
	args := strings.Split(m[0][2], ", ")
	var segs []string
	var segsJ []string
	ai := 0
	var litb []byte
	flush := func() {
		if len(litb) > 0 {
			segs = append(segs, fmt.Sprintf(".lit %s %s", leanBytes(litb), leanComment(string(litb))))
			segsJ = append(segsJ, "lit:"+string(litb))
			litb = nil
		}
	}
	for i := 0; i < len(format); i++ {
		if format[i] != '%' {
			litb = append(litb, format[i])
			continue
		}
		i++
		if i >= len(format) || format[i] != 'd' {
			return fmt.Errorf("%s: unexpected verb in %q (only %%d is expressible)", where, format)
		}
		if ai >= len(args) {
			return fmt.Errorf("%s: more verbs than arguments in %q", where, format)
		}
		flush()
		switch args[ai] {
		case recvName + ".RevisionNumber":
			segs = append(segs, ".decRev 0")
			segsJ = append(segsJ, "decRev")
		case recvName + ".RevisionHeight":
			segs = append(segs, ".decHeight 0")
			segsJ = append(segsJ, "decHeight")
		default:
			return fmt.Errorf("%s: %%d applied to %s, which is not a field of the height", where, args[ai])
		}
		ai++
	}
	flush()
	if ai != len(args) {
		return fmt.Errorf("%s: fewer verbs than arguments in %q", where, format)
	}
	fmt.Fprintf(&sb, "/-- clienttypes.Height.String: %s -/\ndef heightString : Template :=\n  { params := [.height], segs := [%s] }\n\n", leanComment(format), strings.Join(segs, ", "))
	facts["height_string"] = segsJ

	pfd := findFunc(hf, "", "ParseHeight")
	if pfd == nil {
		return fmt.Errorf("%s: ParseHeight not found", hpath)
	}
	where = posOf(fset, pfd) + " ParseHeight"
	ifErr := `if err != nil \{ return .* \}`
	m, err = matchSeq(where, stmtTexts(fset, pfd.Body.List), []string{
		identRe + ` := strings\.Split\(heightStr, (".*?")\)`,
		`if len\(` + identRe + `\) != (\d+) \{ return .* \}`,
		identRe + `, err := strconv\.ParseUint\(` + identRe + `\[(\d+)\], (\d+), (\d+)\)`,
		ifErr,
		identRe + `, err := strconv\.ParseUint\(` + identRe + `\[(\d+)\], (\d+), (\d+)\)`,
		ifErr,
		`return NewHeight\(` + identRe + `, ` + identRe + `\), nil`,
	})
	if err != nil {
		return err
	}
	if m[1][1] != m[0][1] || m[2][2] != m[0][1] || m[4][2] != m[0][1] || m[6][1] != m[2][1] || m[6][2] != m[4][1] ||
		m[2][4] != m[4][4] || m[2][5] != m[4][5] {
		return fmt.Errorf("%s: the variables are not wired as NewHeight(parse(part a), parse(part b))", where)
	}
	sep, err := sepByte(where, m[0][2])
	if err != nil {
		return err
	}
	fmt.Fprintf(&sb, "/-- clienttypes.ParseHeight -/\ndef parseHeight : HeightParser :=\n  { sep := %d, parts := %s, revIdx := %s, heightIdx := %s, base := %s, bits := %s }\n\n", sep, m[1][2], m[2][3], m[4][3], m[2][4], m[2][5])
	facts["parse_height"] = map[string]interface{}{"sep": string(sep), "parts": atoi(m[1][2]), "rev_idx": atoi(m[2][3]), "height_idx": atoi(m[4][3]), "base": atoi(m[2][4]), "bits": atoi(m[2][5])}

	// ---- GetHeightFromIterationKey × 3 -----------------------------------------------------------------
	hostF, err := parseFile(fset, filepath.Join(ctx.Repo, "x/xibc/core/host/keys.go"))
	if err != nil {
		return err
	}
	host := newKeyPkg(fset)
	if err := host.load(hostF); err != nil {
		return err
	}
	var iks []*iterKeyFact
	for _, cl := range []string{"tendermint", "bsc", "eth"} {
		p := filepath.Join(ctx.Repo, "x/xibc/clients/light-clients", cl, "types/store.go")
		f, err := parseFile(fset, p)
		if err != nil {
			return err
		}
		pkg := newKeyPkg(fset)
		pkg.imports["host"] = host
		if err := pkg.load(f); err != nil {
			return err
		}
		ik, err := extractIterKeyParser(fset, p, cl, pkg)
		if err != nil {
			return err
		}
		iks = append(iks, ik)
		fmt.Fprintf(&sb, "/-- %s GetHeightFromIterationKey -/\ndef %sHeightFromIterKey : IterKeyParser :=\n  { skip := %s %s, revLo := %d, revHi := %d, heightLo := %d, decoder := .%s }\n\n",
			cl, map[string]string{"tendermint": "tm", "bsc": "bsc", "eth": "eth"}[cl], leanBytes([]byte(ik.Skip)), leanComment(ik.Skip), ik.RevLo, ik.RevHi, ik.HeightLo, ik.Decoder)
	}
	facts["height_from_iteration_key"] = iks

	// ---- packet keeper iterateHashes ----------------------------------------------------------------------
	kpath := filepath.Join(ctx.Repo, "x/xibc/core/packet/keeper/keeper.go")
	kf, err := parseFile(fset, kpath)
	if err != nil {
		return err
	}
	ih := findFunc(kf, "Keeper", "iterateHashes")
	if ih == nil {
		return fmt.Errorf("%s: iterateHashes not found", kpath)
	}
	where = posOf(fset, ih) + " iterateHashes"
	var loop *ast.ForStmt
	for _, st := range ih.Body.List {
		if fs, ok := st.(*ast.ForStmt); ok {
			loop = fs
		}
	}
	if loop == nil {
		return fmt.Errorf("%s: no for loop", where)
	}
	m, err = matchSeq(where, stmtTexts(fset, loop.Body.List), []string{
		identRe + ` := strings\.Split\(string\(iterator\.Key\(\)\), (".*?")\)`,
		identRe + ` := ` + identRe + `\[(\d+)\]`,
		identRe + ` := ` + identRe + `\[(\d+)\]`,
		identRe + `, err := strconv\.ParseUint\(` + identRe + `\[len\(` + identRe + `\)-(\d+)\], (\d+), (\d+)\)`,
		`if err != nil \{ panic\(err\) \}`,
		`if cb\(` + identRe + `, ` + identRe + `, ` + identRe + `, iterator\.Value\(\)\) \{ break \}`,
	})
	if err != nil {
		return err
	}
	ks := m[0][1]
	if m[1][2] != ks || m[2][2] != ks || m[3][2] != ks || m[3][3] != ks || m[5][1] != m[1][1] || m[5][2] != m[2][1] || m[5][3] != m[3][1] {
		return fmt.Errorf("%s: the variables are not wired as cb(split[i], split[j], parse(split[len-k]), value)", where)
	}
	sep, err = sepByte(where, m[0][2])
	if err != nil {
		return err
	}
	fmt.Fprintf(&sb, "/-- packet keeper iterateHashes -/\ndef iterateHashes : HashKeyParser :=\n  { sep := %d, srcIdx := %s, dstIdx := %s, seqFromEnd := %s, base := %s, bits := %s }\n\n", sep, m[1][3], m[2][3], m[3][4], m[3][5], m[3][6])
	facts["iterate_hashes"] = map[string]interface{}{"sep": string(sep), "src_idx": atoi(m[1][3]), "dst_idx": atoi(m[2][3]), "seq_from_end": atoi(m[3][4]), "base": atoi(m[3][5]), "bits": atoi(m[3][6])}

	// ---- host.ParsePath ------------------------------------------------------------------------------------
	ppath := filepath.Join(ctx.Repo, "x/xibc/core/host/parse.go")
	pf, err := parseFile(fset, ppath)
	if err != nil {
		return err
	}
	pp := findFunc(pf, "", "ParsePath")
	if pp == nil {
		return fmt.Errorf("%s: ParsePath not found", ppath)
	}
	where = posOf(fset, pp) + " ParsePath"
	m, err = matchSeq(where, stmtTexts(fset, pp.Body.List), []string{
		identRe + ` := strings\.Split\(path, (".*?")\)`,
		`if len\(` + identRe + `\) < (\d+) \{ return .* \}`,
		`return ` + identRe + `\[(\d+)\], ` + identRe + `\[(\d+)\], nil`,
	})
	if err != nil {
		return err
	}
	if m[1][1] != m[0][1] || m[2][1] != m[0][1] || m[2][3] != m[0][1] {
		return fmt.Errorf("%s: the variables are not wired as (split[i], split[j])", where)
	}
	sep, err = sepByte(where, m[0][2])
	if err != nil {
		return err
	}
	fmt.Fprintf(&sb, "/-- host.ParsePath -/\ndef parsePath : PathParser :=\n  { sep := %d, minParts := %s, srcIdx := %s, dstIdx := %s }\n\n", sep, m[1][2], m[2][2], m[2][4])
	facts["parse_path"] = map[string]interface{}{"sep": string(sep), "min_parts": atoi(m[1][2]), "src_idx": atoi(m[2][2]), "dst_idx": atoi(m[2][4])}

	// ---- bsc recent signers: key -> height ---------------------------------------------------------------------
	bpath := filepath.Join(ctx.Repo, "x/xibc/clients/light-clients/bsc/types/store.go")
	bf, err := parseFile(fset, bpath)
	if err != nil {
		return err
	}
	var rows []string
	var sj []interface{}
	for _, fn := range []string{"GetRecentSigners", "DeleteAllSigner"} {
		fd := findFunc(bf, "", fn)
		if fd == nil {
			return fmt.Errorf("%s: %s not found", bpath, fn)
		}
		where = posOf(fset, fd) + " " + fn
		var loop *ast.ForStmt
		for _, st := range fd.Body.List {
			if fs, ok := st.(*ast.ForStmt); ok {
				loop = fs
			}
		}
		if loop == nil || len(loop.Body.List) < 3 {
			return fmt.Errorf("%s: no key-parsing loop", where)
		}
		m, err = matchSeq(where, stmtTexts(fset, loop.Body.List[:3]), []string{
			identRe + ` := iterator\.Key\(\)`,
			identRe + ` := strings\.Split\(string\(` + identRe + `\), (".*?")\)`,
			identRe + `, err := clienttypes\.ParseHeight\(` + identRe + `\[(\d+)\]\)`,
		})
		if err != nil {
			return err
		}
		if m[1][2] != m[0][1] || m[2][2] != m[1][1] {
			return fmt.Errorf("%s: the variables are not wired as ParseHeight(split(key)[i])", where)
		}
		sep, err = sepByte(where, m[1][3])
		if err != nil {
			return err
		}
		rows = append(rows, fmt.Sprintf("  { fn := %q, sep := %d, heightIdx := %s }", fn, sep, m[2][3]))
		sj = append(sj, map[string]interface{}{"func": fn, "sep": string(sep), "height_idx": atoi(m[2][3])})
	}
	fmt.Fprintf(&sb, "/-- bsc GetRecentSigners / DeleteAllSigner: height read from the key -/\ndef signerKeyParsers : List SignerKeyParser := [\n%s]\n\nend TM.Generated.Parsers\n", strings.Join(rows, ",\n"))
	facts["bsc_signer_key"] = sj
	ctx.Fact("parsers", facts)
	return ctx.Emit("Parsers.lean", sb.String())
}
