package main

// Extractor "packetscans": which store prefix every prefix scan of the packet keeper uses
// (x/xibc/core/packet/keeper/*.go: sdk.KVStorePrefixIterator / prefix.NewStore) and how the scan parses its keys.
// A scan over `host.XPrefixPath(src, dst)` is a BY-PATH scan: it is emitted together with the template of the
// prefix function and the template of the key function `host.XKey` whose keys it is meant to enumerate, so that
// "the per-path prefix selects exactly the keys written for (src, dst)" is an obligation over generated facts.
// A scan over a constant (`host.KeyPacketAckPrefix`, …) is a FAMILY scan.

import (
	"fmt"
	"go/ast"
	"go/token"
	"path/filepath"
	"strings"
)

func init() { register(Extractor{Name: "packetscans", Run: runPacketScans}) }

type scanFact struct {
	Func     string `json:"func"`
	File     string `json:"file"`
	Via      string `json:"via"`                 // KVStorePrefixIterator | prefix.NewStore
	PrefixFn string `json:"prefix_fn,omitempty"` // host function (by-path scan)
	KeyFn    string `json:"key_fn,omitempty"`
	Const    string `json:"const,omitempty"` // host constant (family scan)
	Parser   string `json:"parser"`          // iterateHashes | parsePath | splitLast
}

// hostRef recognises host.X / []byte(host.X) / host.F(a, b) / []byte(host.F(a, b))
func hostRef(e ast.Expr) (name string, nargs int, isCall bool, ok bool) {
	if c, isC := e.(*ast.CallExpr); isC && isByteSliceType(c.Fun) && len(c.Args) == 1 {
		e = c.Args[0]
	}
	switch x := e.(type) {
	case *ast.SelectorExpr:
		if id, isID := x.X.(*ast.Ident); isID && id.Name == "host" {
			return x.Sel.Name, 0, false, true
		}
	case *ast.CallExpr:
		if s, isS := x.Fun.(*ast.SelectorExpr); isS {
			if id, isID := s.X.(*ast.Ident); isID && id.Name == "host" {
				return s.Sel.Name, len(x.Args), true, true
			}
		}
	}
	return "", 0, false, false
}

// scanParser classifies how the enclosing function turns a key into (src, dst, sequence)
func scanParser(fd *ast.FuncDecl) (string, bool) {
	var iterHashes, iterSeq, split, parseLast bool
	ast.Inspect(fd.Body, func(n ast.Node) bool {
		c, ok := n.(*ast.CallExpr)
		if !ok {
			return true
		}
		switch selName(c.Fun) {
		case "k.iterateHashes":
			iterHashes = true
		case "k.IteratePacketSequence":
			iterSeq = true
		case "strings.Split":
			if len(c.Args) == 2 {
				if s, ok := stringLit(c.Args[1]); ok && s == "/" {
					split = true
				}
			}
		case "strconv.ParseUint":
			// strconv.ParseUint(keySplit[len(keySplit)-1], 10, 64)
			if len(c.Args) == 3 {
				if ix, ok := c.Args[0].(*ast.IndexExpr); ok {
					if be, ok := ix.Index.(*ast.BinaryExpr); ok && be.Op == token.SUB {
						if one, ok := intLit(be.Y); ok && one == 1 {
							b, ok1 := intLit(c.Args[1])
							w, ok2 := intLit(c.Args[2])
							if ok1 && ok2 && b == 10 && w == 64 {
								parseLast = true
							}
						}
					}
				}
			}
		}
		return true
	})
	switch {
	case iterHashes && !iterSeq && !split:
		return "iterateHashes", true
	case iterSeq && !iterHashes && !split:
		return "parsePath", true
	case split && parseLast && !iterHashes && !iterSeq:
		return "splitLast", true
	}
	return "", false
}

func runPacketScans(ctx *Ctx) error {
	fset := token.NewFileSet()
	hf, err := parseFile(fset, filepath.Join(ctx.Repo, "x/xibc/core/host/keys.go"))
	if err != nil {
		return err
	}
	hostFuncs := map[string]bool{}
	hostConsts := map[string]bool{}
	for _, d := range hf.Decls {
		switch x := d.(type) {
		case *ast.FuncDecl:
			if x.Recv == nil {
				hostFuncs[x.Name.Name] = true
			}
		case *ast.GenDecl:
			for _, s := range x.Specs {
				if vs, ok := s.(*ast.ValueSpec); ok {
					for _, n := range vs.Names {
						hostConsts[n.Name] = true
					}
				}
			}
		}
	}
	// the family constants the Lean `Consts` structure knows (hostkeys extractor)
	constField := map[string]string{
		"KeyNextSeqSendPrefix": "nextSeqSendPrefix", "KeyPacketCommitmentPrefix": "commitmentPrefix", "KeyPacketAckPrefix": "ackPrefix",
		"KeyPacketReceiptPrefix": "receiptPrefix", "KeyPacketRelayerPrefix": "relayerPrefix",
	}
	dir := filepath.Join(ctx.Repo, "x/xibc/core/packet/keeper")
	files, err := parseDir(fset, dir)
	if err != nil {
		return err
	}
	var facts []scanFact
	for _, fn := range sortedKeys(files) {
		for _, d := range files[fn].Decls {
			fd, ok := d.(*ast.FuncDecl)
			if !ok || fd.Body == nil {
				continue
			}
			var ferr error
			ast.Inspect(fd.Body, func(n ast.Node) bool {
				c, ok := n.(*ast.CallExpr)
				if !ok || ferr != nil {
					return ferr == nil
				}
				via := selName(c.Fun)
				if (via != "sdk.KVStorePrefixIterator" && via != "prefix.NewStore") || len(c.Args) != 2 {
					return true
				}
				name, nargs, isCall, ok := hostRef(c.Args[1])
				if !ok {
					ferr = fmt.Errorf("%s: the prefix of this scan is not a host constant or host function call; not expressible", posOf(fset, c))
					return false
				}
				parser, ok := scanParser(fd)
				if !ok {
					ferr = fmt.Errorf("%s: %s does not parse its keys by iterateHashes, IteratePacketSequence or strings.Split + ParseUint(last); the model of the scan must be revised", posOf(fset, c), fd.Name.Name)
					return false
				}
				f := scanFact{Func: fd.Name.Name, File: fn, Via: strings.TrimPrefix(via, "sdk."), Parser: parser}
				if isCall {
					if nargs != 2 || !strings.HasSuffix(name, "PrefixPath") || !hostFuncs[name] {
						ferr = fmt.Errorf("%s: by-path scan over host.%s (%d arguments) is not of the form host.XPrefixPath(src, dst)", posOf(fset, c), name, nargs)
						return false
					}
					key := strings.TrimSuffix(name, "PrefixPath") + "Key"
					if !hostFuncs[key] {
						ferr = fmt.Errorf("%s: no key function host.%s for the by-path prefix host.%s", posOf(fset, c), key, name)
						return false
					}
					f.PrefixFn, f.KeyFn = name, key
				} else {
					if _, known := constField[name]; !known || !hostConsts[name] {
						ferr = fmt.Errorf("%s: family scan over host.%s, which is not one of the modelled family prefixes", posOf(fset, c), name)
						return false
					}
					f.Const = name
				}
				facts = append(facts, f)
				return true
			})
			if ferr != nil {
				return ferr
			}
		}
	}
	if len(facts) == 0 {
		return fmt.Errorf("no prefix scan found in %s", dir)
	}
	var sb strings.Builder
	sb.WriteString(leanHeader)
	sb.WriteString("-- source: x/xibc/core/packet/keeper/*.go (prefix scans), x/xibc/core/host/keys.go\n")
	sb.WriteString("import TeleportModel.Model.Host\nimport TeleportModel.Generated.HostKeys\nnamespace TM.Generated.PacketScans\nopen TM TM.Host\n\n")
	var paths, fams []string
	for _, f := range facts {
		if f.PrefixFn != "" {
			p, err := leanIdent(f.PrefixFn)
			if err != nil {
				return err
			}
			k, err := leanIdent(f.KeyFn)
			if err != nil {
				return err
			}
			paths = append(paths, fmt.Sprintf("  { fn := %q, prefixT := HostKeys.%s, keyT := HostKeys.%s, parser := .%s } /- %s: %s(store, host.%s(src, dst)) -/", f.Func, p, k, f.Parser, f.File, f.Via, f.PrefixFn))
		} else {
			fams = append(fams, fmt.Sprintf("  { fn := %q, pre := HostKeys.consts.%s, parser := .%s } /- %s: %s(store, host.%s) -/", f.Func, constField[f.Const], f.Parser, f.File, f.Via, f.Const))
		}
	}
	fmt.Fprintf(&sb, "/-- scans over a per-path prefix host.XPrefixPath(src, dst), with the key function whose keys they enumerate -/\ndef pathScans : List PathScan := [\n%s]\n\n", strings.Join(paths, ",\n"))
	fmt.Fprintf(&sb, "/-- scans over a whole key family -/\ndef familyScans : List FamilyScan := [\n%s]\n\nend TM.Generated.PacketScans\n", strings.Join(fams, ",\n"))
	ctx.Fact("packetscans", facts)
	return ctx.Emit("PacketScans.lean", sb.String())
}
