package main

// Extractor "merkle": the path → key-bytes codec of the commitment package (x/xibc/core/commitment/types/merkle.go)
// and how the Tendermint client gets from a host path to the MerklePath it verifies proofs against
// (x/xibc/clients/light-clients/tendermint/types/client_state.go).
//   NewMerklePath / ApplyPrefix : which escaping (if any) is applied to a key-path element when the path is BUILT
//   String                      : the escape function of the text form
//   Pretty / GetKey             : the unescape function applied when the text / the key bytes are read back
//   VerifyPacketCommitment / VerifyPacketAcknowledgement : NewMerklePath(host.XPath(src, dst, seq)) + ApplyPrefix
// Only url.PathEscape / QueryEscape / PathUnescape / QueryUnescape are expressible; anything else is a hard error.

import (
	"fmt"
	"go/ast"
	"go/token"
	"path/filepath"
	"strings"
)

func init() { register(Extractor{Name: "merkle", Run: runMerkle}) }

// urlCalls lists the net/url functions called in a function body, with the printed argument
func urlCalls(fset *token.FileSet, fd *ast.FuncDecl) (names []string, args []string) {
	ast.Inspect(fd.Body, func(n ast.Node) bool {
		c, ok := n.(*ast.CallExpr)
		if !ok {
			return true
		}
		if s := selName(c.Fun); strings.HasPrefix(s, "url.") && len(c.Args) == 1 {
			names = append(names, strings.TrimPrefix(s, "url."))
			args = append(args, printNode(fset, c.Args[0]))
		}
		return true
	})
	return
}

func runMerkle(ctx *Ctx) error {
	fset := token.NewFileSet()
	mpath := filepath.Join(ctx.Repo, "x/xibc/core/commitment/types/merkle.go")
	mf, err := parseFile(fset, mpath)
	if err != nil {
		return err
	}
	esc := map[string]string{"PathEscape": ".pathEscape", "QueryEscape": ".queryEscape"}
	unesc := map[string]string{"PathUnescape": ".pathUnescape", "QueryUnescape": ".queryUnescape"}
	facts := map[string]interface{}{}
	one := func(recv, fn string, table map[string]string, wantArg string, allowNone bool) (string, error) {
		fd := findFunc(mf, recv, fn)
		if fd == nil {
			return "", fmt.Errorf("%s: %s not found", mpath, fn)
		}
		names, args := urlCalls(fset, fd)
		where := posOf(fset, fd) + " " + fn
		if len(names) == 0 && allowNone {
			facts[fn] = "none"
			return ".none", nil
		}
		if len(names) != 1 {
			return "", fmt.Errorf("%s: %d net/url calls where exactly one is transcribed", where, len(names))
		}
		v, ok := table[names[0]]
		if !ok {
			return "", fmt.Errorf("%s: url.%s is not one of the expressible functions", where, names[0])
		}
		if wantArg != "" && args[0] != wantArg {
			return "", fmt.Errorf("%s: url.%s is applied to `%s`, the transcription expects `%s`", where, names[0], args[0], wantArg)
		}
		facts[fn] = names[0]
		return v, nil
	}
	// builders: must not touch the elements other than (optionally) escaping them
	nmp := findFunc(mf, "", "NewMerklePath")
	if nmp == nil {
		return fmt.Errorf("%s: NewMerklePath not found", mpath)
	}
	if _, err := matchSeq(posOf(fset, nmp)+" NewMerklePath", stmtTexts(fset, nmp.Body.List), []string{`return MerklePath\{ KeyPath: keyPath, \}`}); err != nil {
		return err
	}
	facts["NewMerklePath"] = "none"
	ap := findFunc(mf, "", "ApplyPrefix")
	if ap == nil {
		return fmt.Errorf("%s: ApplyPrefix not found", mpath)
	}
	if _, err := matchSeq(posOf(fset, ap)+" ApplyPrefix", stmtTexts(fset, ap.Body.List), []string{
		`if prefix == nil \|\| prefix\.Empty\(\) \{ return .* \}`,
		`return NewMerklePath\(append\(\[\]string\{string\(prefix\.Bytes\(\)\)\}, path\.KeyPath\.\.\.\)\.\.\.\), nil`,
	}); err != nil {
		return err
	}
	facts["ApplyPrefix"] = "none"
	strEsc, err := one("MerklePath", "String", esc, "k", false)
	if err != nil {
		return err
	}
	prettyUn, err := one("MerklePath", "Pretty", unesc, "mp.String()", false)
	if err != nil {
		return err
	}
	getKeyUn, err := one("MerklePath", "GetKey", unesc, "mp.KeyPath[i]", false)
	if err != nil {
		return err
	}
	// String: "/" + escape(k) per element
	sfd := findFunc(mf, "MerklePath", "String")
	if _, err := matchSeq(posOf(fset, sfd)+" String", stmtTexts(fset, sfd.Body.List), []string{
		identRe + ` := ""`,
		`for _, k := range mp\.KeyPath \{ ` + identRe + ` \+= "/" \+ url\.\w+\(k\) \}`,
		`return ` + identRe,
	}); err != nil {
		return err
	}
	// GetKey: range check, unescape of element i, bytes of the result
	gfd := findFunc(mf, "MerklePath", "GetKey")
	if _, err := matchSeq(posOf(fset, gfd)+" GetKey", stmtTexts(fset, gfd.Body.List), []string{
		`if i >= uint64\(len\(mp\.KeyPath\)\) \{ return .* \}`,
		identRe + `, err := url\.\w+\(mp\.KeyPath\[i\]\)`,
		`if err != nil \{ return nil, err \}`,
		`return \[\]byte\(` + identRe + `\), nil`,
	}); err != nil {
		return err
	}

	// Tendermint client: which host path each proof verification uses
	cpath := filepath.Join(ctx.Repo, "x/xibc/clients/light-clients/tendermint/types/client_state.go")
	cf, err := parseFile(fset, cpath)
	if err != nil {
		return err
	}
	hf, err := parseFile(fset, filepath.Join(ctx.Repo, "x/xibc/core/host/keys.go"))
	if err != nil {
		return err
	}
	hostFuncs := map[string]bool{}
	for _, d := range hf.Decls {
		if fd, ok := d.(*ast.FuncDecl); ok && fd.Recv == nil {
			hostFuncs[fd.Name.Name] = true
		}
	}
	var rows []string
	var pj []interface{}
	for _, fn := range []string{"VerifyPacketCommitment", "VerifyPacketAcknowledgement"} {
		fd := findFunc(cf, "ClientState", fn)
		if fd == nil {
			return fmt.Errorf("%s: %s not found", cpath, fn)
		}
		where := posOf(fset, fd) + " " + fn
		var hostFn string
		var local string
		applied := false
		var ferr error
		ast.Inspect(fd.Body, func(n ast.Node) bool {
			as, ok := n.(*ast.AssignStmt)
			if !ok || len(as.Rhs) != 1 {
				return true
			}
			c, ok := as.Rhs[0].(*ast.CallExpr)
			if !ok {
				return true
			}
			switch selName(c.Fun) {
			case "commitmenttypes.NewMerklePath":
				if len(c.Args) != 1 {
					ferr = fmt.Errorf("%s: NewMerklePath with %d elements", where, len(c.Args))
					return false
				}
				name, nargs, isCall, ok := hostRef(c.Args[0])
				if !ok || !isCall || nargs != 3 || !strings.HasSuffix(name, "Path") || !hostFuncs[name] {
					ferr = fmt.Errorf("%s: the key path is not host.XPath(srcChain, dstChain, sequence)", where)
					return false
				}
				want := []string{"srcChain", "dstChain", "sequence"}
				call := c.Args[0].(*ast.CallExpr)
				for i, a := range call.Args {
					if id, ok := a.(*ast.Ident); !ok || id.Name != want[i] {
						ferr = fmt.Errorf("%s: argument %d of host.%s is not the parameter %s", where, i, name, want[i])
						return false
					}
				}
				hostFn = name
				local = as.Lhs[0].(*ast.Ident).Name
			case "commitmenttypes.ApplyPrefix":
				if len(c.Args) == 2 && printNode(fset, c.Args[0]) == "cs.GetPrefix()" && printNode(fset, c.Args[1]) == local {
					applied = true
				}
			}
			return true
		})
		if ferr != nil {
			return ferr
		}
		if hostFn == "" || !applied {
			return fmt.Errorf("%s: not of the shape NewMerklePath(host.XPath(src, dst, seq)) + ApplyPrefix(cs.GetPrefix(), ·)", where)
		}
		key := strings.TrimSuffix(hostFn, "Path") + "Key"
		if !hostFuncs[key] {
			return fmt.Errorf("%s: no key function host.%s for host.%s", where, key, hostFn)
		}
		pid, _ := leanIdent(hostFn)
		kid, _ := leanIdent(key)
		rows = append(rows, fmt.Sprintf("  { fn := %q, pathFn := %q, pathT := HostKeys.%s, keyT := HostKeys.%s }", fn, hostFn, pid, kid))
		pj = append(pj, map[string]string{"func": fn, "path_fn": hostFn, "key_fn": key})
	}
	facts["tendermint_proof_paths"] = pj

	var sb strings.Builder
	sb.WriteString(leanHeader)
	sb.WriteString("-- source: x/xibc/core/commitment/types/merkle.go, x/xibc/clients/light-clients/tendermint/types/client_state.go\n")
	sb.WriteString("import TeleportModel.Model.Merkle\nimport TeleportModel.Generated.HostKeys\nnamespace TM.Generated.Merkle\nopen TM TM.Host TM.Merkle\n\n")
	fmt.Fprintf(&sb, "/-- what happens to a key-path element when a MerklePath is built / printed / read back -/\ndef codec : Codec :=\n  { newMerklePath := .none, applyPrefix := .none, string := %s, pretty := %s, getKey := %s }\n\n", strEsc, prettyUn, getKeyUn)
	fmt.Fprintf(&sb, "/-- proof verification of the Tendermint client: NewMerklePath(host.<pathFn>(src, dst, seq)) + ApplyPrefix -/\ndef proofPaths : List ProofPath := [\n%s]\n\nend TM.Generated.Merkle\n", strings.Join(rows, ",\n"))
	ctx.Fact("merkle", facts)
	return ctx.Emit("Merkle.lean", sb.String())
}
