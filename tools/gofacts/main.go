// gofacts: translator / fact extractor. Parses the CURRENT source tree of the repository under
// verification and regenerates small Lean data tables (lean/TeleportModel/Generated/*.lean) plus a JSON
// summary. Every extractor lives in its own file and registers itself in `extractors` from an init();
// adding an extractor never edits another one. Anything an extractor cannot express (a new verb in a
// format string, an unknown ABI type, an unexpected statement shape) is a hard error: nothing is written.
//
// Standard library only (go/parser, go/ast) so that it always builds offline.
package main

import (
	"encoding/json"
	"flag"
	"fmt"
	"os"
	"path/filepath"
	"sort"
)

// Extractor is one independent translation unit.
type Extractor struct {
	Name string
	// Run parses what it needs below ctx.Repo and calls ctx.Emit / ctx.Fact.
	Run func(ctx *Ctx) error
}

var extractors []Extractor

func register(e Extractor) { extractors = append(extractors, e) }

// Ctx collects the outputs of all extractors; files are written only if every extractor succeeded.
type Ctx struct {
	Repo  string
	Root  string // root of the verification framework (for expectation files in props/), derived from -out
	files map[string]string
	facts map[string]interface{}
}

// Emit registers a generated Lean module (file name relative to the -out directory).
func (c *Ctx) Emit(name, content string) error {
	if _, dup := c.files[name]; dup {
		return fmt.Errorf("generated file %s emitted twice", name)
	}
	c.files[name] = content
	return nil
}

// Fact records a value in the JSON summary.
func (c *Ctx) Fact(key string, v interface{}) { c.facts[key] = v }

func main() {
	repo := flag.String("repo", "/repo", "repository under verification")
	out := flag.String("out", "", "output directory for generated Lean modules")
	js := flag.String("json", "", "path of the JSON summary")
	only := flag.String("only", "", "run a single extractor (debugging)")
	flag.Parse()
	if *out == "" {
		fmt.Fprintln(os.Stderr, "gofacts: -out is required")
		os.Exit(2)
	}
	ctx := &Ctx{Repo: *repo, files: map[string]string{}, facts: map[string]interface{}{}}
	if abs, err := filepath.Abs(*out); err == nil {
		// <root>/lean/TeleportModel/Generated
		ctx.Root = filepath.Dir(filepath.Dir(filepath.Dir(abs)))
	}
	sort.Slice(extractors, func(i, j int) bool { return extractors[i].Name < extractors[j].Name })
	failed := false
	for _, e := range extractors {
		if *only != "" && e.Name != *only {
			continue
		}
		if err := e.Run(ctx); err != nil {
			fmt.Fprintf(os.Stderr, "gofacts: extractor %s: %v\n", e.Name, err)
			failed = true
		}
	}
	if failed {
		fmt.Fprintln(os.Stderr, "gofacts: the source is no longer expressible by the translator; nothing written")
		os.Exit(1)
	}
	if err := os.MkdirAll(*out, 0o755); err != nil {
		fmt.Fprintln(os.Stderr, err)
		os.Exit(1)
	}
	names := make([]string, 0, len(ctx.files))
	for n := range ctx.files {
		names = append(names, n)
	}
	sort.Strings(names)
	for _, n := range names {
		p := filepath.Join(*out, n)
		old, err := os.ReadFile(p)
		if err == nil && string(old) == ctx.files[n] {
			continue // unchanged: keep the time stamp so that lake does not rebuild
		}
		if err := os.WriteFile(p+".tmp", []byte(ctx.files[n]), 0o644); err != nil {
			fmt.Fprintln(os.Stderr, err)
			os.Exit(1)
		}
		if err := os.Rename(p+".tmp", p); err != nil {
			fmt.Fprintln(os.Stderr, err)
			os.Exit(1)
		}
	}
	if *js != "" {
		ctx.facts["generated_files"] = names
		b, _ := json.MarshalIndent(ctx.facts, "", " ")
		_ = os.MkdirAll(filepath.Dir(*js), 0o755)
		if err := os.WriteFile(*js, b, 0o644); err != nil {
			fmt.Fprintln(os.Stderr, err)
			os.Exit(1)
		}
	}
	fmt.Printf("gofacts: %d extractors, %d files regenerated from %s\n", len(extractors), len(names), *repo)
}
