#!/usr/bin/env python3
"""Regenerates MANIFEST.json from props/C*.json (claimed checks) and properties.jsonl (everything else -> not_applicable
with the reason in props/NA.json or the default 'not built yet')."""
import glob, json, os
ROOT = os.path.dirname(os.path.dirname(os.path.abspath(__file__)))
props = [json.loads(l) for l in open(os.path.join(ROOT, "properties.jsonl"))]
cfgs = {}
for f in sorted(glob.glob(os.path.join(ROOT, "props", "C*.json"))):
    c = json.load(open(f)); cfgs[c["id"]] = c
na_path = os.path.join(ROOT, "props", "NA.json")
na = json.load(open(na_path)) if os.path.exists(na_path) else {}
hooks_path = os.path.join(ROOT, "props", "HOOKS.json")
hooks = json.load(open(hooks_path)) if os.path.exists(hooks_path) else {"source_commits": []}
man = {
    "version": 1,
    "setup_cmd": "./setup.sh",
    "hooks": {"guard": "verif",
              "enable": "the harness module (replace github.com/teleport-network/teleport => /repo) is built with `go test -c -tags verif`; hook files in /repo carry `//go:build verif`",
              "baseline_off_cmd": "cd /repo && go test -mod=mod -json -vet=off -count=1 -timeout 25m ./...",
              "source_commits": hooks.get("source_commits", []), "add_only": True},
    "engines": [{"name": "lean-model+correspondence", "path": "/verif/check", "serves_properties": sorted(cfgs),
                 "kind_free_text": "Lean 4 theorems about executable models (lean/TeleportModel), tied to /repo on every run by a Go differential harness driving the real code (harness/) and by a go/ast translator regenerating Lean tables (tools/gofacts)"}],
    "checks": [], "not_applicable": [],
    "notes": "See DESIGN.md. Every check: ./check Cxx --tier quick|thorough; replays: ./check Cxx --replay FILE. known_findings.json lists recorded and fixed defects.",
}
for p in props:
    i = p["id"]
    if i in cfgs and not cfgs[i].get("unclaimed"):
        c = cfgs[i]
        man["checks"].append({
            "property_id": i, "quick_cmd": f"./check {i} --tier quick", "thorough_cmd": f"./check {i} --tier thorough",
            "evidence_file": f"/verif/evidence/{i}.json", "replay_cmd_template": f"./check {i} --replay {{path}}",
            "engine": "lean-model+correspondence",
            "level_claimed": {"category": "proof", "text": c["claim_text"], "design_ref": c.get("design_ref", "5/" + i)},
            "level_note": c["level_note"],
            "technique": c.get("technique", "Lean 4 proof over an executable model + differential correspondence with the Go implementation")})
    else:
        man["not_applicable"].append({"property_id": i, "reason": na.get(i, "check not built yet (planned, DESIGN.md section 5): no claim is made until its model, theorems and correspondence exist")})
json.dump(man, open(os.path.join(ROOT, "MANIFEST.json"), "w"), indent=1)
print("claimed:", [c["property_id"] for c in man["checks"]])
