#!/bin/bash
# runall.sh [tier] — every claimed check on the current tree, 4 at a time; prints the verdict lines
T=${1:-quick}
cd /verif
ls props | sed -n 's/^\(C[0-9]*\)\.json$/\1/p' | xargs -P 4 -I{} sh -c "./check {} --tier $T > build/runall_{}.log 2>&1; grep -E '^VIOLATION|^KNOWN|^{} ' build/runall_{}.log | cut -c1-260"
