#!/usr/bin/env python3
"""Runs the repository's baseline suite (guard OFF) with -json and compares the passing tests with /root/.vp/BASELINE.json."""
import json, subprocess, os, sys
env = dict(os.environ, GOFLAGS="-mod=mod", GOPROXY="off", GOSUMDB="off", GOTOOLCHAIN="local")
p = subprocess.run("cd /repo && go test -mod=mod -json -vet=off -count=1 -timeout 25m ./...", shell=True, env=env, stdout=subprocess.PIPE, stderr=subprocess.DEVNULL)
passed, failed = set(), set()
for l in p.stdout.decode("utf-8", "replace").splitlines():
    try:
        e = json.loads(l)
    except Exception:
        continue
    if e.get("Test") and e.get("Action") in ("pass", "fail"):
        (passed if e["Action"] == "pass" else failed).add(f"{e['Package']}::{e['Test']}")
b = json.load(open("/root/.vp/BASELINE.json"))
stable = set(b["stable_pass"])
missing = sorted(stable - passed)
print(f"baseline stable_pass: {len(stable)}  passing now: {len(stable & passed)}  missing: {len(missing)}")
for m in missing[:20]:
    print("  MISSING", m)
print("failed now:", sorted(failed))
sys.exit(1 if missing else 0)
