#!/bin/bash
# confirm_seed.sh <ID> '<go test command for the demo, run inside WT>'
# Confirms a seeded change in its scratch worktree /tmp/seed/<ID>/wt: compiles, demo FAILS with the change,
# demo PASSES without it (source change reverse-applied), full suite with the change has only the 3 expected failures.
set -u
ID=$1; DEMO=$2
WT=/tmp/seed/$ID/wt; OUT=/tmp/seed/$ID/out
export GOFLAGS=-mod=mod GOPROXY=off GOSUMDB=off GOTOOLCHAIN=local DBUS_SESSION_BUS_ADDRESS=${DBUS_SESSION_BUS_ADDRESS:-unix:path=/nonexistent/verif-no-dbus}
cd $WT || exit 2
go build ./... || { echo "CONFIRM $ID: does not compile"; exit 1; }
echo "--- demo WITH change (must fail)"; bash -c "$DEMO" > /tmp/seed/$ID/demo_with.log 2>&1; rc1=$?
git apply -R $OUT/patch.diff || { echo "CONFIRM $ID: cannot reverse patch"; exit 1; }
echo "--- demo WITHOUT change (must pass)"; bash -c "$DEMO" > /tmp/seed/$ID/demo_without.log 2>&1; rc2=$?
git apply $OUT/patch.diff
echo "--- full suite WITH change (demo files moved away)"
mkdir -p /tmp/seed/$ID/untracked; git ls-files --others --exclude-standard > /tmp/seed/$ID/untracked.lst
tar cf /tmp/seed/$ID/untracked.tar -T /tmp/seed/$ID/untracked.lst 2>/dev/null; xargs -a /tmp/seed/$ID/untracked.lst rm -f
go test -vet=off -count=1 -timeout 25m ./... > /tmp/seed/$ID/suite.log 2>&1
tar xf /tmp/seed/$ID/untracked.tar 2>/dev/null
fails=$(grep -E "^(--- FAIL|FAIL)" /tmp/seed/$ID/suite.log | grep -v "TestETHTestSuite\|light-clients/eth/types\|^FAIL$" )
echo "demo_with rc=$rc1 (want !=0)  demo_without rc=$rc2 (want 0)  unexpected suite failures: [${fails}]"
if [ $rc1 -ne 0 ] && [ $rc2 -eq 0 ] && [ -z "$fails" ]; then echo "CONFIRM $ID: OK"; else echo "CONFIRM $ID: NOT CONFIRMED"; fi
