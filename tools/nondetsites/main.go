// nondetsites — translator part of property C14 (deterministic state machine).
//
// It inventories every syntactic site of the teleport module's state-machine code where the Go code
// consults something that is order- or environment-dependent:
//
//	map-range   `range` over a map-typed expression            (iteration order is randomised)
//	time        time.Now / Since / Until / After / Sleep / Tick / NewTimer / NewTicker / AfterFunc
//	rand        any use of math/rand or crypto/rand
//	go          `go` statement                                   (scheduling)
//	select      `select` statement                               (scheduling)
//	fs          any use of os, io/ioutil, path/filepath, io/fs   (file system, environment, process)
//	runtime     any use of runtime, runtime/debug
//	sync        any use of sync, sync/atomic
//	fmt-addr    a fmt-style call with `%p`, or with a `%v`-like verb / Sprint operand whose static type is a
//	            pointer without String/Error method, a chan, a func or an unsafe.Pointer (prints an address);
//	            maps are reported as fmt-map (fmt prints them key-sorted since go1.12, listed for review)
//	float       arithmetic / conversion / literal / math.* call of type float32 / float64
//	unsafe      any use of package unsafe
//	env         os.Getenv / LookupEnv / Environ / Hostname / Getwd / Getpid / UserHomeDir / Args / TempDir … (process environment)
//	tz          time.Local, time.LoadLocation, time.Unix* (values in the LOCAL zone), Time.Local / Zone / Location
//	reflect-map reflect.Value.MapKeys / MapRange (map iteration through reflection)
//	execution-context-capture `%+v` / `%#v` of an error (stack trace of wrapped errors), pkg/errors.WithStack, runtime.Caller*/Stack,
//	            debug.Stack/ReadBuildInfo — unless the text goes only to a logger (errtext.go)
//	error-text-in-consensus-data err.Error() / `%s` `%v` of an error used as a VALUE (not to build another error, not logged, not
//	            panicked): acknowledgement messages, event attributes, stored fields (errtext.go)
//	package-init-calls-config-dependent-code a package-level initialiser / init() that calls (up to two module levels deep) code whose
//	            result depends on runtime configuration or writes a dependency-global cache: sdk address .String()/Bech32ify/GetConfig,
//	            time.Now, os.*, rand (pkginit.go)
//	closure-captures-loop-or-outer-var-in-map-range an escaping func literal inside `for … range <map>` that refers to the range variables
//	            (go.mod < 1.22) or to an outer variable assigned in the loop (pkginit.go)
//	node-local-config a value read from servertypes.AppOptions / viper / flags / server config structures (app.toml, config.toml) or handed on
//	            by the app creator (home, invCheckPeriod, skipUpgradeHeights, traceStore, baseapp options) that flows into a keeper /
//	            module / ante-handler constructor, a baseapp option or a field of a resident struct (nodeconfig.go; app/ and cmd/)
//	shared-constant-mutation in-place write (big.Int mutator, index assignment, copy / append destination, *p = …) through a LOCAL
//	            ALIAS of process memory: a package-level pointer of the module or of a dependency, the result of a call
//	            that may hand back its argument or a global, a field of a resident struct (alias.go)
//	process-state-holder package-level variable of mutable type (map, slice, pointer, interface, chan, func, sync.*, struct holding one):
//	            a place where process-local state CAN live; every one is listed so that a new one is a finding by itself
//	process-state write to process-local mutable state (field of a keeper / module / hook / ante struct, package-level
//	            variable) outside constructors — see procstate.go
//	typed-event call of cosmos-sdk EventManager.EmitTypedEvent(s) / TypedEventToEvent (v0.45.2 builds the attribute
//	            list by ranging over a map: attribute order is random)
//
// over the non-test, non-generated (.pb.go, .pb.gw.go), non-CLI files of x/*, adapter, ibc, app, types,
// syscontracts of the repository given by -repo (type-checked with go/packages, so `range` over a map is
// decided by the type checker, not guessed).
//
// Map ranges whose body is SYNTACTICALLY order-independent are classified by the tool itself
// (field "auto"): the body only (a) inserts into / deletes from another map with a key and value that
// are built from the loop variables only, (b) tests a condition over the loop variables and returns the same
// constant (or `continue`s) on every hit, (c) adds integers into an accumulator with `+=` / `++`.
//
// Output: JSON list of sites {file, func, kind, expr, count, auto}. No line numbers: the match key is
// (file, func, kind, expr) so that unrelated edits do not move sites.
//
// With -expect FILE the sites are matched against the committed expectation file (props/sites-C14.json) and the
// report {matched, auto, uninventoried[], unused[]} is written to -report.
package main

import (
	"bytes"
	"encoding/json"
	"flag"
	"fmt"
	"go/ast"
	"go/printer"
	"go/token"
	"go/types"
	"os"
	"path/filepath"
	"regexp"
	"sort"
	"strings"

	"golang.org/x/tools/go/packages"
)

type Site struct {
	File  string `json:"file"`
	Func  string `json:"func"`
	Kind  string `json:"kind"`
	Expr  string `json:"expr"`
	Count int    `json:"count"`
	Auto  string `json:"auto,omitempty"` // non-empty: classified by the tool (no expectation needed)
	Lines []string `json:"lines,omitempty"` // file:line of the occurrences (reporting only, not part of the match key)
	Reach string `json:"reach,omitempty"` // with -reach: reachable | rta-unreachable | unreachable | init
	// reachable      in the CHA graph and by rapid type analysis
	// rta-unreachable reachable only through CHA's "every implementation of the interface" edges, not by RTA
	// unreachable    not even in the CHA over-approximation (sound)
	// init           package-level declaration or init function (runs at process start, not in block processing)
}

type Expect struct {
	File      string `json:"file"` // `*` wildcards allowed in file / func / expr
	Func      string `json:"func"`
	Kind      string `json:"kind"`
	Expr      string `json:"expr"`
	Discharge string `json:"discharge"` // "theorem:<Lean name>" or "class:<name>"
	Reason    string `json:"reason"`
}

type ExpectFile struct {
	Comment string   `json:"comment"`
	Classes []string `json:"classes"`
	Sites   []Expect `json:"sites"`
}

type Matched struct {
	Site
	Discharge string `json:"discharge"`
}

type Report struct {
	Repo          string    `json:"repo"`
	Files         int       `json:"files"`
	Funcs         int       `json:"funcs"`
	Sites         int       `json:"sites"`
	ByKind        map[string]int `json:"by_kind"`
	Matched       []Matched `json:"matched"`
	Auto          []Site    `json:"auto"`
	Uninventoried []Site    `json:"uninventoried"`
	Unused        []Expect  `json:"unused"`
	Errors        []string  `json:"errors"`
	ReachRoots    []string  `json:"reach_roots,omitempty"`
	ReachStats    map[string]int `json:"reach_stats,omitempty"`
}

var roots = []string{"x", "adapter", "ibc", "app", "types", "syscontracts"}

var repoRoot string

var cliDir = regexp.MustCompile(`(^|/)client/(cli|utils|rest)(/|$)`)

func excluded(rel string) bool {
	if strings.HasSuffix(rel, "_test.go") || strings.HasSuffix(rel, ".pb.go") || strings.HasSuffix(rel, ".pb.gw.go") {
		return true
	}
	dir := filepath.ToSlash(filepath.Dir(rel))
	if cliDir.MatchString(dir) {
		return true
	}
	// <module>/client/proposal_handler.go : registration of CLI / REST proposal handlers
	// (x/xibc/core/client/proposal_handler.go is the gov handler of the client module: state code, kept)
	if filepath.Base(dir) == "client" && filepath.Base(rel) == "proposal_handler.go" {
		if st, err := os.Stat(filepath.Join(repoRoot, dir, "cli")); err == nil && st.IsDir() {
			return true
		}
	}
	return false
}

var timeFuncs = map[string]bool{"Now": true, "Since": true, "Until": true, "After": true, "Sleep": true, "Tick": true,
	"NewTimer": true, "NewTicker": true, "AfterFunc": true}

// process environment (kind env) — identifiers of package os that read the environment / identity of the process
var envIdents = map[string]bool{"Getenv": true, "LookupEnv": true, "Environ": true, "ExpandEnv": true, "Hostname": true, "Getwd": true, "Getpid": true,
	"Getppid": true, "Getuid": true, "Geteuid": true, "Getgid": true, "UserHomeDir": true, "UserCacheDir": true, "UserConfigDir": true, "Executable": true, "Args": true, "TempDir": true}

// local time zone (kind tz): values / functions of package time whose result depends on TZ / the zone database
var tzFuncs = map[string]bool{"Local": true, "LoadLocation": true, "LoadLocationFromTZData": true, "Unix": true, "UnixMilli": true, "UnixMicro": true}

// methods of time.Time that expose the local zone
var tzMethods = map[string]bool{"Local": true, "Zone": true, "Location": true}

// reflect-based map iteration (kind reflect-map)
var reflectMapMethods = map[string]bool{"MapKeys": true, "MapRange": true}

var pkgKind = map[string]string{
	"math/rand": "rand", "crypto/rand": "rand", "math/rand/v2": "rand",
	"os": "fs", "io/ioutil": "fs", "path/filepath": "fs", "io/fs": "fs", "os/exec": "fs", "os/user": "fs", "os/signal": "fs",
	"runtime": "runtime", "runtime/debug": "runtime",
	"sync": "sync", "sync/atomic": "sync",
	"unsafe": "unsafe",
}

var fmtFuncs = map[string]int{ // name -> index of the format argument (-1: Sprint-like, all args are operands)
	"fmt.Sprintf": 0, "fmt.Errorf": 0, "fmt.Printf": 0, "fmt.Fprintf": 1, "fmt.Sprint": -1, "fmt.Sprintln": -1,
	"fmt.Print": -1, "fmt.Println": -1, "fmt.Fprint": -2, "fmt.Fprintln": -2,
	"errors.Wrapf": 1, "sdkerrors.Wrapf": 1, "errors.Errorf": 0,
}

type collector struct {
	fset  *token.FileSet
	info  *types.Info
	rel   string
	sites map[string]*Site
	funcs int
	ps    *procState
}

// addAt is add + the source line of the occurrence (kept for the finding text)
func (c *collector) addAt(fn, kind, expr string, pos token.Pos) {
	c.add(fn, kind, expr, "")
	k := c.rel + "\x00" + fn + "\x00" + kind + "\x00" + norm(expr)
	if s, ok := c.sites[k]; ok {
		s.Lines = append(s.Lines, fmt.Sprintf("%s:%d", c.rel, c.fset.Position(pos).Line))
	}
}

func (c *collector) add(fn, kind, expr, auto string) {
	expr = norm(expr)
	k := c.rel + "\x00" + fn + "\x00" + kind + "\x00" + expr
	if s, ok := c.sites[k]; ok {
		s.Count++
		if auto == "" {
			s.Auto = "" // one non-automatic occurrence makes the whole key non-automatic
		}
		return
	}
	c.sites[k] = &Site{File: c.rel, Func: fn, Kind: kind, Expr: expr, Count: 1, Auto: auto}
}

var ws = regexp.MustCompile(`\s+`)

func norm(s string) string {
	s = ws.ReplaceAllString(strings.TrimSpace(s), " ")
	if len(s) > 160 {
		s = s[:160]
	}
	return s
}

func (c *collector) src(n ast.Node) string {
	var b bytes.Buffer
	_ = printer.Fprint(&b, c.fset, n)
	return b.String()
}

func funcName(d *ast.FuncDecl) string {
	if d.Recv == nil || len(d.Recv.List) == 0 {
		return d.Name.Name
	}
	t := d.Recv.List[0].Type
	star := ""
	if s, ok := t.(*ast.StarExpr); ok {
		star = "*"
		t = s.X
	}
	name := "?"
	switch x := t.(type) {
	case *ast.Ident:
		name = x.Name
	case *ast.IndexExpr:
		if id, ok := x.X.(*ast.Ident); ok {
			name = id.Name
		}
	}
	return "(" + star + name + ")." + d.Name.Name
}

func deref(t types.Type) types.Type {
	if p, ok := t.(*types.Pointer); ok {
		return p.Elem()
	}
	return t
}

func isFloat(t types.Type) bool {
	if t == nil {
		return false
	}
	b, ok := t.Underlying().(*types.Basic)
	return ok && b.Info()&types.IsFloat != 0
}

func hasStringOrError(t types.Type) bool {
	for _, m := range []string{"String", "Error", "Format", "GoString"} {
		obj, _, _ := types.LookupFieldOrMethod(t, true, nil, m)
		if f, ok := obj.(*types.Func); ok && f != nil {
			return true
		}
	}
	return false
}

// addrLike: does printing a value of this static type with a %v-like verb print a memory address?
func addrLike(t types.Type) string {
	if t == nil {
		return ""
	}
	if hasStringOrError(t) {
		return ""
	}
	switch u := t.Underlying().(type) {
	case *types.Map:
		return "map"
	case *types.Chan:
		return "chan"
	case *types.Signature:
		return "func"
	case *types.Pointer:
		// &struct / &array / &slice / &map print their contents at top level; anything else prints the address
		switch u.Elem().Underlying().(type) {
		case *types.Struct, *types.Array, *types.Slice, *types.Map:
			return ""
		}
		return "pointer"
	case *types.Basic:
		if u.Kind() == types.UnsafePointer {
			return "pointer"
		}
	}
	return ""
}

// ---- syntactic order-independence of a map-range body ------------------------------------------------------

type autoCtx struct {
	c     *collector
	loopV map[string]bool // loop variables (key, value) and locals derived from them only
}

func (a *autoCtx) pureOverLoopVars(e ast.Expr) bool {
	// an expression with no calls except conversions / len / methods without side effects is hard to decide;
	// accept: identifiers, selectors, literals, index, unary/binary, conversions & calls whose arguments are pure
	// (calls cannot change the result's dependence on the *order*: what matters is that no statement writes
	// state that a later iteration reads — ensured by the statement forms accepted below).
	ok := true
	ast.Inspect(e, func(n ast.Node) bool {
		switch n.(type) {
		case *ast.FuncLit:
			ok = false
		}
		return ok
	})
	return ok
}

func constLike(e ast.Expr) bool {
	switch x := e.(type) {
	case *ast.BasicLit:
		return true
	case *ast.Ident:
		return x.Name == "true" || x.Name == "false" || x.Name == "nil"
	}
	return false
}

// classify returns a non-empty class when every statement of the body is of an order-independent form.
func (a *autoCtx) classify(rs *ast.RangeStmt) string {
	kinds := map[string]bool{}
	var retSig string
	retSeen := false
	var okStmt func(s ast.Stmt) bool
	okBlock := func(b *ast.BlockStmt) bool {
		for _, s := range b.List {
			if !okStmt(s) {
				return false
			}
		}
		return true
	}
	okStmt = func(s ast.Stmt) bool {
		switch x := s.(type) {
		case *ast.AssignStmt:
			// m2[k] = v  (insert into another map / set)
			if x.Tok == token.ASSIGN && len(x.Lhs) == 1 && len(x.Rhs) == 1 {
				if ix, ok := x.Lhs[0].(*ast.IndexExpr); ok {
					if tv, ok2 := a.c.info.Types[ix.X]; ok2 {
						if _, isMap := tv.Type.Underlying().(*types.Map); isMap && a.pureOverLoopVars(x.Rhs[0]) && a.pureOverLoopVars(ix.Index) {
							// the inserted value must not read the target map (no read-modify-write)
							if !mentions(x.Rhs[0], a.c.src(ix.X), a.c) {
								kinds["insert"] = true
								return true
							}
						}
					}
				}
			}
			// local := <expr over loop variables>   (new variables only)
			if x.Tok == token.DEFINE {
				for _, l := range x.Lhs {
					if _, ok := l.(*ast.Ident); !ok {
						return false
					}
				}
				for _, r := range x.Rhs {
					if !a.pureOverLoopVars(r) || hasCall(r) {
						return false
					}
				}
				return true
			}
			// acc += <integer expr>
			if x.Tok == token.ADD_ASSIGN && len(x.Lhs) == 1 && len(x.Rhs) == 1 {
				if tv, ok := a.c.info.Types[x.Lhs[0]]; ok {
					if b, ok2 := tv.Type.Underlying().(*types.Basic); ok2 && b.Info()&types.IsInteger != 0 && a.pureOverLoopVars(x.Rhs[0]) {
						kinds["sum"] = true
						return true
					}
				}
			}
			return false
		case *ast.IncDecStmt:
			if tv, ok := a.c.info.Types[x.X]; ok {
				if b, ok2 := tv.Type.Underlying().(*types.Basic); ok2 && b.Info()&types.IsInteger != 0 {
					kinds["sum"] = true
					return true
				}
			}
			return false
		case *ast.ExprStmt:
			// delete(m2, k)
			if call, ok := x.X.(*ast.CallExpr); ok {
				if id, ok2 := call.Fun.(*ast.Ident); ok2 && id.Name == "delete" && len(call.Args) == 2 {
					if a.c.src(call.Args[0]) != a.c.src(rs.X) {
						kinds["insert"] = true
						return true
					}
				}
			}
			return false
		case *ast.IfStmt:
			if x.Init != nil || !a.pureOverLoopVars(x.Cond) {
				return false
			}
			if !okBlock(x.Body) {
				return false
			}
			switch e := x.Else.(type) {
			case nil:
			case *ast.BlockStmt:
				if !okBlock(e) {
					return false
				}
			case *ast.IfStmt:
				if !okStmt(e) {
					return false
				}
			default:
				return false
			}
			return true
		case *ast.ReturnStmt:
			// the same constant tuple on every hit
			sig := ""
			for _, r := range x.Results {
				if !constLike(r) {
					return false
				}
				sig += a.c.src(r) + ","
			}
			if retSeen && sig != retSig {
				return false
			}
			retSeen, retSig = true, sig
			kinds["membership"] = true
			return true
		case *ast.BranchStmt:
			return x.Tok == token.CONTINUE && x.Label == nil
		case *ast.BlockStmt:
			return okBlock(x)
		case *ast.EmptyStmt:
			return true
		}
		return false
	}
	if rs.Body == nil || len(rs.Body.List) == 0 {
		return "auto:empty-body"
	}
	if !okBlock(rs.Body) {
		return ""
	}
	// a conditional `return const` combined with inserts is still order dependent (which inserts happened
	// before the return) — only pure combinations are accepted
	if kinds["membership"] && (kinds["insert"] || kinds["sum"]) {
		return ""
	}
	ks := make([]string, 0, len(kinds))
	for k := range kinds {
		ks = append(ks, k)
	}
	sort.Strings(ks)
	return "auto:order-independent-body(" + strings.Join(ks, "+") + ")"
}

func hasCall(e ast.Expr) bool {
	found := false
	ast.Inspect(e, func(n ast.Node) bool {
		if _, ok := n.(*ast.CallExpr); ok {
			found = true
		}
		return !found
	})
	return found
}

func mentions(e ast.Expr, target string, c *collector) bool {
	found := false
	ast.Inspect(e, func(n ast.Node) bool {
		if ex, ok := n.(ast.Expr); ok && c.src(ex) == target {
			found = true
		}
		return !found
	})
	return found
}

// ---- the walk ---------------------------------------------------------------------------------------------

var verbRe = regexp.MustCompile(`%[-+# 0]*(\[\d+\])?[\d*]*(\.[\d*]+)?([a-zA-Z%])`)

func (c *collector) walkFunc(fn string, body ast.Node) {
	ast.Inspect(body, func(n ast.Node) bool {
		switch x := n.(type) {
		case *ast.RangeStmt:
			if tv, ok := c.info.Types[x.X]; ok && tv.Type != nil {
				if _, isMap := tv.Type.Underlying().(*types.Map); isMap {
					a := &autoCtx{c: c}
					c.add(fn, "map-range", c.src(x.X), a.classify(x))
				}
			}
		case *ast.GoStmt:
			c.add(fn, "go", c.src(x.Call.Fun), "")
		case *ast.SelectStmt:
			c.add(fn, "select", "select", "")
		case *ast.SelectorExpr:
			if sel, ok := c.info.Selections[x]; ok && sel.Obj() != nil && sel.Obj().Pkg() != nil {
				switch sel.Obj().Pkg().Path() {
				case "time":
					if tzMethods[x.Sel.Name] {
						if n, ok2 := deref(sel.Recv()).(*types.Named); ok2 && n.Obj().Name() == "Time" {
							c.add(fn, "tz", "time.Time."+x.Sel.Name, "")
						}
					}
				case "reflect":
					if reflectMapMethods[x.Sel.Name] {
						c.add(fn, "reflect-map", "reflect.Value."+x.Sel.Name, "")
					}
				}
			}
			if id, ok := x.X.(*ast.Ident); ok {
				if pn, ok2 := c.info.Uses[id].(*types.PkgName); ok2 {
					path := pn.Imported().Path()
					if path == "time" && timeFuncs[x.Sel.Name] {
						c.add(fn, "time", "time."+x.Sel.Name, "")
					}
					if path == "time" && tzFuncs[x.Sel.Name] {
						c.add(fn, "tz", "time."+x.Sel.Name, "")
					}
					if k, ok3 := pkgKind[path]; ok3 {
						if path == "os" && envIdents[x.Sel.Name] {
							k = "env"
						}
						c.add(fn, k, path+"."+x.Sel.Name, "")
					}
					if path == "math" {
						if tv, ok3 := c.info.Types[x]; ok3 {
							if sig, ok4 := tv.Type.(*types.Signature); ok4 && sig.Results().Len() > 0 && isFloat(sig.Results().At(0).Type()) {
								c.add(fn, "float", "math."+x.Sel.Name, "")
							}
						}
					}
				}
			}
		case *ast.BinaryExpr:
			if tv, ok := c.info.Types[x]; ok && tv.Value == nil {
				if isFloat(tv.Type) || isFloat(c.info.TypeOf(x.X)) && isFloat(c.info.TypeOf(x.Y)) {
					c.add(fn, "float", c.src(x), "")
					return true
				}
			}
		case *ast.BasicLit:
			if x.Kind == token.FLOAT {
				if tv, ok := c.info.Types[x]; ok && isFloat(tv.Type) {
					c.add(fn, "float", x.Value, "")
				}
			}
		case *ast.CallExpr:
			// conversion to float
			if tv, ok := c.info.Types[x.Fun]; ok && tv.IsType() && isFloat(tv.Type) && len(x.Args) == 1 {
				if atv, ok2 := c.info.Types[x.Args[0]]; !ok2 || atv.Value == nil {
					c.add(fn, "float", c.src(x.Fun)+"(…)", "")
				}
			}
			c.fmtCall(fn, x)
			// cosmos-sdk v0.45.2 TypedEventToEvent ranges over a map[string]json.RawMessage: the attribute order of
			// every typed event is random unless the caller sorts the attributes
			if sel, ok := x.Fun.(*ast.SelectorExpr); ok {
				switch sel.Sel.Name {
				case "EmitTypedEvent", "EmitTypedEvents", "TypedEventToEvent":
					if obj := c.info.Uses[sel.Sel]; obj != nil && obj.Pkg() != nil && obj.Pkg().Path() == "github.com/cosmos/cosmos-sdk/types" {
						c.add(fn, "typed-event", "sdk."+sel.Sel.Name, "")
					}
				}
			}
		}
		return true
	})
}

func (c *collector) fmtCall(fn string, call *ast.CallExpr) {
	sel, ok := call.Fun.(*ast.SelectorExpr)
	if !ok {
		return
	}
	id, ok := sel.X.(*ast.Ident)
	if !ok {
		return
	}
	pn, ok := c.info.Uses[id].(*types.PkgName)
	if !ok {
		return
	}
	name := pn.Imported().Name() + "." + sel.Sel.Name
	if pn.Imported().Path() == "github.com/cosmos/cosmos-sdk/types/errors" {
		name = "sdkerrors." + sel.Sel.Name
	}
	fi, ok := fmtFuncs[name]
	if !ok {
		return
	}
	var operands []ast.Expr
	switch {
	case fi >= 0:
		if len(call.Args) <= fi {
			return
		}
		operands = call.Args[fi+1:]
		if tv, ok := c.info.Types[call.Args[fi]]; ok && tv.Value != nil {
			f := strings.Trim(tv.Value.ExactString(), `"`)
			vs := verbRe.FindAllStringSubmatch(f, -1)
			ai := 0
			for _, v := range vs {
				verb := v[3]
				if verb == "%" {
					continue
				}
				if verb == "p" {
					c.add(fn, "fmt-addr", name+" %p", "")
				}
				if ai < len(operands) {
					c.fmtOperand(fn, name, "%"+verb, operands[ai])
				}
				ai++
			}
			return
		}
	case fi == -1:
		operands = call.Args
	case fi == -2:
		if len(call.Args) > 0 {
			operands = call.Args[1:]
		}
	}
	for _, o := range operands {
		c.fmtOperand(fn, name, "operand", o)
	}
}

func (c *collector) fmtOperand(fn, name, verb string, o ast.Expr) {
	if verb == "%T" {
		return
	}
	t := c.info.TypeOf(o)
	switch addrLike(t) {
	case "map":
		c.add(fn, "fmt-map", name+" "+verb+" "+c.src(o), "")
	case "pointer", "chan", "func":
		c.add(fn, "fmt-addr", name+" "+verb+" "+c.src(o), "")
	}
}

func glob(pat, s string) bool {
	if pat == "" || pat == "*" {
		return true
	}
	if !strings.Contains(pat, "*") {
		return pat == s
	}
	parts := strings.Split(pat, "*")
	if !strings.HasPrefix(s, parts[0]) {
		return false
	}
	s = s[len(parts[0]):]
	for i := 1; i < len(parts)-1; i++ {
		j := strings.Index(s, parts[i])
		if j < 0 {
			return false
		}
		s = s[j+len(parts[i]):]
	}
	return strings.HasSuffix(s, parts[len(parts)-1])
}

func main() {
	repo := flag.String("repo", "/repo", "repository root")
	out := flag.String("out", "build/nondetsites.json", "site inventory (JSON)")
	expect := flag.String("expect", "", "expectation file (props/sites-C14.json)")
	report := flag.String("report", "", "match report (JSON)")
	reach := flag.Bool("reach", false, "thorough tier: SSA + CHA call graph, mark every site reachable / unreachable from the block-processing roots")
	flag.Parse()

	abs, err := filepath.Abs(*repo)
	if err != nil {
		fatal(err)
	}
	if r, err := filepath.EvalSymlinks(abs); err == nil {
		abs = r
	}
	repoRoot = abs
	readGoVersion(abs)
	var pats []string
	for _, r := range roots {
		if _, err := os.Stat(filepath.Join(abs, r)); err == nil {
			pats = append(pats, "./"+r+"/...")
		}
	}
	if _, err := os.Stat(filepath.Join(abs, "cmd")); err == nil {
		pats = append(pats, "./cmd/...") // only for the node-local-config flows (app creator)
	}
	cfg := &packages.Config{
		Mode: packages.NeedName | packages.NeedFiles | packages.NeedCompiledGoFiles | packages.NeedSyntax | packages.NeedTypes | packages.NeedTypesInfo | packages.NeedImports | packages.NeedDeps,
		Dir:  abs,
		Env:  append(os.Environ(), "GOFLAGS=-mod=mod", "GOPROXY=off", "GOSUMDB=off", "GOTOOLCHAIN=local"),
	}
	pkgs, err := packages.Load(cfg, pats...)
	if err != nil {
		fatal(err)
	}
	rep := Report{Repo: abs, ByKind: map[string]int{}}
	all := map[string]*Site{}
	resident := computeResident(pkgs)
	var cfgFuncs []*cfgFunc
	// index of the module's functions for the one-level return summaries of the alias analysis
	packages.Visit(pkgs, nil, func(p *packages.Package) {
		if p.Types == nil || !inModule(p.Types) || p.TypesInfo == nil {
			return
		}
		sc := &collector{fset: p.Fset, info: p.TypesInfo, rel: "", sites: map[string]*Site{}, ps: resident}
		for _, f := range p.Syntax {
			for _, d := range f.Decls {
				if fd, ok := d.(*ast.FuncDecl); ok {
					if obj, ok2 := p.TypesInfo.Defs[fd.Name].(*types.Func); ok2 {
						moduleFuncs[obj] = &funcInfo{decl: fd, info: p.TypesInfo, c: sc}
					}
				}
			}
		}
	})
	for _, p := range pkgs {
		for _, e := range p.Errors {
			rep.Errors = append(rep.Errors, p.PkgPath+": "+e.Error())
		}
		for i, f := range p.Syntax {
			name := p.CompiledGoFiles[i]
			if r, err := filepath.EvalSymlinks(name); err == nil {
				name = r
			}
			rel, err := filepath.Rel(abs, name)
			if err != nil || strings.HasPrefix(rel, "..") {
				continue
			}
			rel = filepath.ToSlash(rel)
			if excluded(rel) {
				continue
			}
			c := &collector{fset: p.Fset, info: p.TypesInfo, rel: rel, sites: all, ps: resident}
			if strings.HasPrefix(rel, "app/") || strings.HasPrefix(rel, "cmd/") {
				for _, d := range f.Decls {
					if fd, ok := d.(*ast.FuncDecl); ok && fd.Body != nil {
						if obj, ok2 := p.TypesInfo.Defs[fd.Name].(*types.Func); ok2 {
							cfgFuncs = append(cfgFuncs, &cfgFunc{decl: fd, c: c, obj: obj})
						}
					}
				}
			}
			if strings.HasPrefix(rel, "cmd/") {
				continue // command line code: inventoried for configuration flows only
			}
			rep.Files++
			c.holders(f)
			c.pkgInit(f)
			for _, d := range f.Decls {
				switch x := d.(type) {
				case *ast.FuncDecl:
					rep.Funcs++
					if x.Body != nil {
						c.walkFunc(funcName(x), x)
						c.procWrites(funcName(x), x.Body)
						c.errText(funcName(x), x.Body)
						c.aliasWrites(funcName(x), x.Body)
						c.mapRangeClosures(funcName(x), x.Body)
					}
				case *ast.GenDecl:
					if x.Tok == token.IMPORT {
						continue
					}
					c.walkFunc("<pkginit>", x)
				}
			}
		}
	}
	nodeConfigSites(cfgFuncs)
	if len(rep.Errors) > 0 {
		// a tree that does not type-check cannot be inventoried
		for _, e := range rep.Errors {
			fmt.Fprintln(os.Stderr, "load error:", e)
		}
	}
	var sites []Site
	for _, s := range all {
		sites = append(sites, *s)
	}
	sort.Slice(sites, func(i, j int) bool {
		a, b := sites[i], sites[j]
		if a.File != b.File {
			return a.File < b.File
		}
		if a.Func != b.Func {
			return a.Func < b.Func
		}
		if a.Kind != b.Kind {
			return a.Kind < b.Kind
		}
		return a.Expr < b.Expr
	})
	rep.Sites = len(sites)
	for _, s := range sites {
		rep.ByKind[s.Kind]++
	}
	if *reach && len(rep.Errors) == 0 {
		ri := computeReach(pkgs, abs)
		rep.ReachRoots = ri.Roots
		rep.ReachStats = map[string]int{"module_functions": ri.Funcs, "callgraph_nodes": ri.Nodes, "roots": len(ri.Roots), "reachable_module_functions": len(ri.Reachable)}
		for i := range sites {
			switch {
			case sites[i].Func == "<pkginit>" || sites[i].Func == "init":
				sites[i].Reach = "init"
			case ri.Reachable[sites[i].File+"\x00"+sites[i].Func] && ri.RTA[sites[i].File+"\x00"+sites[i].Func]:
				sites[i].Reach = "reachable"
			case ri.Reachable[sites[i].File+"\x00"+sites[i].Func]:
				sites[i].Reach = "rta-unreachable"
			default:
				sites[i].Reach = "unreachable"
			}
			rep.ReachStats["sites_"+sites[i].Reach]++
		}
	}
	writeJSON(*out, sites)

	if *expect != "" {
		var ef ExpectFile
		b, err := os.ReadFile(*expect)
		if err != nil {
			fatal(err)
		}
		if err := json.Unmarshal(b, &ef); err != nil {
			fatal(fmt.Errorf("%s: %v", *expect, err))
		}
		used := make([]bool, len(ef.Sites))
		for _, s := range sites {
			if s.Auto != "" {
				rep.Auto = append(rep.Auto, s)
				// an explicit expectation for an auto site is still "used"
			}
			hit := -1
			// most specific first: exact entries before wildcard entries
			for pass := 0; pass < 2 && hit < 0; pass++ {
				for i, e := range ef.Sites {
					wild := strings.Contains(e.File+e.Func+e.Expr+e.Kind, "*") || e.Func == "" || e.Expr == ""
					if (pass == 0) == wild {
						continue
					}
					if glob(e.Kind, s.Kind) && glob(e.File, s.File) && glob(e.Func, s.Func) && glob(e.Expr, s.Expr) {
						hit = i
						break
					}
				}
			}
			if hit >= 0 {
				used[hit] = true
				rep.Matched = append(rep.Matched, Matched{Site: s, Discharge: ef.Sites[hit].Discharge})
			} else if s.Auto == "" {
				rep.Uninventoried = append(rep.Uninventoried, s)
			}
		}
		for i, e := range ef.Sites {
			if !used[i] {
				rep.Unused = append(rep.Unused, e)
			}
		}
	}
	if *report != "" {
		writeJSON(*report, rep)
	}
	fmt.Printf("nondetsites: repo=%s files=%d funcs=%d sites=%d matched=%d auto=%d uninventoried=%d unused-expectations=%d load-errors=%d\n",
		abs, rep.Files, rep.Funcs, rep.Sites, len(rep.Matched), len(rep.Auto), len(rep.Uninventoried), len(rep.Unused), len(rep.Errors))
	if len(rep.Errors) > 0 {
		os.Exit(3)
	}
}

func writeJSON(path string, v interface{}) {
	b, err := json.MarshalIndent(v, "", " ")
	if err != nil {
		fatal(err)
	}
	_ = os.MkdirAll(filepath.Dir(path), 0o755)
	if err := os.WriteFile(path, append(b, '\n'), 0o644); err != nil {
		fatal(err)
	}
}

func fatal(err error) {
	fmt.Fprintln(os.Stderr, "nondetsites:", err)
	os.Exit(2)
}
