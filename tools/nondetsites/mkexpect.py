#!/usr/bin/env python3
"""Maintainer helper: (re)writes props/sites-C14.json from an inventory (build/nondetsites.json of a REVIEWED tree)
and the hand-written rule table below. Every rule is specific to a file (and mostly to a function): a site that no
rule covers stays without expectation and the check reports it as un-inventoried. Do NOT widen a rule to silence an
alarm — add a theorem to Proofs/C14.lean or a class with a reason that a reviewer can verify.

usage: tools/nondetsites/mkexpect.py build/nondetsites.json > props/sites-C14.json"""
import fnmatch, json, sys

ETH = "x/xibc/clients/light-clients/eth/types/"
T = "theorem:TM.Determinism."
# (file glob, func glob, kind glob, expr glob, discharge, reason) — first match wins
RULES = [
 ("adapter/*/adapter.go", "NewHookAdapter", "map-range", "parsed.Events", T+"handler_table_perm",
  "handler table keyed by distinct event ids, panic iff some name is unknown: both independent of the iteration order"),
 ("x/xibc/clients/light-clients/bsc/types/snapshot.go", "(*snapshot).validators", "map-range", "s.Validators", T+"bsc_inturn_perm",
  "keys collected in map order, then sort.Sort: sorted slice and in-turn answer are permutation invariant (also bsc_validators_perm)"),
 ("x/xibc/clients/light-clients/bsc/types/header.go", "verifySeal", "map-range", "snap.Recents", T+"bsc_recents_perm",
  "returns the same error on every hit: existence of a hit is permutation invariant"),
 ("types/events.go", "EmitTypedEvent", "typed-event", "sdk.TypedEventToEvent", T+"typed_event_sorted_perm",
  "attributes arrive in map order (cosmos-sdk v0.45.2) and are sorted by key (distinct JSON field names) before emission"),
 ("app/app.go", "init", "*", "*", "class:startup-configuration",
  "DefaultNodeHome (CLI default of --home) computed at process start; never read while processing blocks"),
 ("syscontracts/*/generated.go", "*", "select", "select", "class:abigen-binding-unreachable",
  "abigen event-subscription helpers for RPC clients; the state machine only uses the ABI / MetaData of these packages"),
 ("x/*/module/module.go", "(AppModule).RandomizedParams", "rand", "math/rand.Rand", "class:simulation-only", "simulation interface, parameter type only"),
 ("x/xibc/*simulation/genesis.go", "*", "rand", "math/rand.Rand", "class:simulation-only", "simulation genesis, not linked into block processing"),
 ("x/rvesting/module/abci.go", "BeginBlocker", "time", "time.Now", "class:telemetry-only", "argument of telemetry.ModuleMeasureSince"),
 ("x/rvesting/module/module.go", "(AppModule).InitGenesis", "time", "time.Now", "class:telemetry-only", "argument of telemetry.MeasureSince"),
 ("x/xibc/clients/light-clients/*/types/hashing.go", "<pkginit>", "sync", "sync.Pool", "class:hasher-pool",
  "pool of keccak states; every user calls Reset() before writing, the digest does not depend on which instance is reused"),



 ("app/app.go", "<pkginit>", "package-init-calls-config-dependent-code", "init() calls os.UserHomeDir", "class:startup-configuration",
  "DefaultNodeHome (CLI default of --home) computed at package initialisation; never read while processing blocks"),
 # ---- node-local configuration flowing into state-machine objects (kind node-local-config): a NEW flow is a finding ----
 ("app/app.go", "NewTeleport", "node-local-config", "crisis.FlagSkipGenesisInvariants -> *", "class:config-non-consensus",
  "crisis AppModule.InitGenesis asserts the registered invariants unless skipped: assert-only (panic = halt), nothing is written"),
 ("app/app.go", "NewTeleport", "node-local-config", "flags.FlagHome -> *", "class:config-non-consensus",
  "home path of the upgrade keeper: location of upgrade-info.json (written when a plan executes, read at start); never read into state"),
 ("app/app.go", "NewTeleport", "node-local-config", "sdkserver.FlagUnsafeSkipUpgrades -> *", "class:operator-override-by-design",
  "--unsafe-skip-upgrades: the cosmos-sdk upgrade keeper skips a scheduled plan at the listed heights; consensus relevant BY DESIGN (an emergency override all validators must apply together), not a teleport decision"),
 ("app/app.go", "NewTeleport", "node-local-config", "param traceStore*", "class:config-non-consensus", "--trace-store: KV operation tracing written to a file"),
 ("app/app.go", "NewTeleport", "node-local-config", "sdkserver.FlagInvCheckPeriod -> *", "class:config-non-consensus",
  "crisis EndBlocker asserts the invariants every n blocks: assert-only (panic = halt on a broken invariant), no state, no events; exercised with different periods by the twin replay"),
 ("app/app.go", "NewTeleport", "node-local-config", "srvflags.EVMTracer -> *", "class:config-non-consensus",
  "ethermint evm keeper tracer (json / struct / access_list / markdown): sets vm.Config.Debug and a tracer that only observes the interpreter; gas, return data, logs and state are those of the untraced run — exercised with different tracers by the twin replay and the replica differential"),
 ("cmd/teleport/root.go", "(appCreator).newApp", "node-local-config", "*baseapp.SetPruning", "class:config-non-consensus", "which old versions of the stores are kept on disk"),
 ("cmd/teleport/root.go", "(appCreator).newApp", "node-local-config", "flags.FlagHome -> *", "class:config-non-consensus", "snapshot directory / metadata DB of state sync"),
 ("cmd/teleport/root.go", "(appCreator).newApp", "node-local-config", "sdkserver.FlagHalt* -> *", "class:operator-override-by-design", "--halt-height / --halt-time: the node stops itself (panic in BeginBlock / Commit); a halted node produces no results"),
 ("cmd/teleport/root.go", "(appCreator).newApp", "node-local-config", "sdkserver.FlagIndexEvents -> *", "class:config-non-consensus",
  "which events the Tendermint indexer indexes: sets the `index` flag of event attributes in the ABCI responses, not their keys / values (events are not part of the results hash)"),
 ("cmd/teleport/root.go", "(appCreator).newApp", "node-local-config", "sdkserver.FlagInterBlockCache*", "class:config-non-consensus", "read cache in front of the IAVL stores (write-through); exercised on one twin / replica"),
 ("cmd/teleport/root.go", "(appCreator).newApp", "node-local-config", "sdkserver.FlagMinGasPrices -> *", "class:config-non-consensus", "minimum gas prices are enforced in CheckTx only (mempool admission), never in DeliverTx; exercised on one twin / replica"),
 ("cmd/teleport/root.go", "(appCreator).newApp", "node-local-config", "sdkserver.FlagMinRetainBlocks -> *", "class:config-non-consensus", "ResponseCommit.RetainHeight: a pruning hint to Tendermint"),
 ("cmd/teleport/root.go", "(appCreator).newApp", "node-local-config", "sdkserver.FlagStateSync* -> *", "class:config-non-consensus", "state-sync snapshot schedule"),
 ("cmd/teleport/root.go", "(appCreator).newApp", "node-local-config", "sdkserver.FlagTrace -> *", "class:config-non-consensus",
  "--trace adds stack traces to the ABCI Log of failed transactions; the log is not part of the results hash (NOT varied by the twin replay, which compares logs)"),
 # ---- error text / execution context used as a value (kinds error-text-in-consensus-data, execution-context-capture) ----
 ("app/app.go", "NewTeleport", "error-text-in-consensus-data", "*", "class:startup-wiring", "tmos.Exit(err.Error()) when the stores cannot be loaded at process start"),
 ("x/aggregate/keeper/ibc_hook.go", "(Keeper).OnRecvPacket", "error-text-in-consensus-data", "err.Error()", "class:deterministic-error-text",
  "EventIBCAggregate.Message (an event attribute, not state): text of the JSON decoding error of the packet data, of the bech32 error of the receiver and of ConvertCoin's sdk-wrapped errors — cosmos-sdk v0.45.2 wrappedError.Error() is \"<msg>: <parent>\" (no stack, no file:line), the chain is built from constant formats and packet / state data"),
 ("x/xibc/core/packet/keeper/evm.go", "(Keeper).CallEVMWithData", "error-text-in-consensus-data", "evmtypes.ErrPostTxProcessing.Error()", "class:deterministic-error-text",
  "text of a registered (constant) sdk error stored in the EVM response's VmError"),
 ("x/xibc/core/packet/keeper/evm_hooks.go", "(Hooks).PostTxProcessing", "error-text-in-consensus-data", "err.Error()", "class:telemetry-only",
  "fmt.Println of the error to the node's stdout (and a logger call): not part of any result"),
 # ---- holders: package-level variables of mutable type (kind process-state-holder). A NEW one is a finding by itself. ----
 ("x/xibc/testing/*", "*", "process-state*", "*", "class:test-support-only", "package xibctesting is imported by tests only"),
 ("app/test_helpers.go", "<pkginit>", "process-state-holder", "*", "class:test-support-only", "test helper (non _test file): consensus params handed to InitChain by tests"),
 ("*", "<pkginit>", "process-state-holder", "var * []byte*", "class:constant-table",
  "byte-string constant (store key prefix, parameter key, embedded contract JSON): Go has no []byte constants; never index-assigned or reassigned (such a write would be a process-state site of its own)"),
 ("*", "<pkginit>", "process-state-holder", "var * *big.Int*", "class:constant-table",
  "numeric constant used as read-only operand; every mutating big.Int method on it would be a process-state site of its own"),
 ("syscontracts/*", "<pkginit>", "process-state-holder", "var * types.CompiledContract*", "class:constant-table", "compiled system contract (ABI + byte code) unmarshalled from the embedded JSON in init(); read afterwards"),
 ("syscontracts/*/generated.go", "<pkginit>", "process-state-holder", "var *FuncSigs map*", "class:constant-table", "abigen table of function signatures, never written"),
 ("syscontracts/*/generated.go", "<pkginit>", "process-state-holder", "var *MetaData [*]bind.MetaData*", "class:deterministic-memo",
  "abigen MetaData: GetAbi() parses the constant ABI string once under a mutex and memoises it; the memo is a function of the constant, the only caller in the module is the unreachable Deploy… binding"),
 ("syscontracts/*/generated.go", "Deploy*", "process-state", "var *MetaData method:GetAbi", "class:abigen-binding-unreachable", "abigen deployment helper for RPC clients"),
 ("x/xibc/core/packet/types/evm.go", "<pkginit>", "process-state-holder", "var Tuple* abi.Type*", "class:startup-configuration", "ABI tuple types built once by init(); read afterwards"),
 ("*", "<pkginit>", "process-state-holder", "var * func(*", "class:constant-table", "function value bound at declaration (identifier validators); never reassigned"),
 ("*", "<pkginit>", "process-state-holder", "var *Cdc [*]codec.ProtoCodec*", "class:startup-configuration", "module codec: interfaces are registered in init() / at app construction, (un)marshalling does not change it"),
 ("app/app.go", "<pkginit>", "process-state-holder", "var ModuleBasics*", "class:startup-configuration", "table of module basics built at declaration; read for genesis defaults, codec and API route registration"),
 ("app/app.go", "<pkginit>", "process-state-holder", "var *", "class:constant-table", "maccPerms / allowedReceivingModAcc / keys: tables built at declaration and only read (membership, copies: see the automatic map-range class)"),
 ("types/coin.go", "<pkginit>", "process-state-holder", "var PowerReduction*", "class:constant-table", "sdk.Int constant (wraps *big.Int), assigned to sdk.DefaultPowerReduction in init(); read-only operand afterwards"),
 ("x/xibc/clients/light-clients/*/types/hashing.go", "<pkginit>", "process-state-holder", "var hasherPool*", "class:hasher-pool", "see rlpHash"),
 ("x/xibc/clients/light-clients/*/types/hashing.go", "rlpHash", "process-state", "var hasherPool method:*", "class:hasher-pool",
  "sync.Pool of keccak states: every user calls Reset() before writing, the digest does not depend on which instance is reused"),
 (ETH+"ethash.go", "<pkginit>", "process-state-holder", "var sharedEthash*", "class:vendored-ethash-per-call-instance",
  "shared instance created by init(); it is attached to an Ethash only when Config.PowMode == ModeShared, VerifyCascadingFields constructs Config{} (ModeNormal): never consulted"),
 (ETH+"ethash.go", "<pkginit>", "process-state-holder", "var dumpMagic*", "class:constant-table", "magic number of the on-disk cache format (disk cache disabled)"),
 ("x/xibc/core/client/types/genesis.go", "<pkginit>", "process-state-holder", "var defaultGenesis*", "class:startup-configuration", "default genesis, see SetDefaultGenesisState"),
 ("x/xibc/core/commitment/types/merkle.go", "<pkginit>", "process-state-holder", "var *", "class:constant-table", "blank proofs used as zero-value comparands and the ICS-23 proof specs: read only"),
 # ---- method calls on resident fields / globals of dependency types ----
 ("app/app.go", "(*Teleport).GetSubspace", "process-state", "*", "class:cli-or-query-only", "test / simulation accessor of a params subspace"),
 ("app/app.go", "(*Teleport).Register*", "process-state", "*", "class:startup-wiring", "API / gRPC route registration at node start (server package), not block processing"),
 ("app/upgrades.go", "(*Teleport).registerUpgradeHandlers", "process-state", "*", "class:startup-wiring", "called once from NewTeleport: installs upgrade handlers and store loaders before the first block"),
 ("app/export.go", "(*Teleport).prepForZeroHeightGenesis", "process-state", "*", "class:cli-or-query-only", "state export command; DistrKeeper.Hooks() returns a value wrapper"),
 ("x/aggregate/keeper/mint.go", "(Keeper).MintingEnabled", "process-state", "(Keeper).bankKeeper method:BlockedAddr", "class:read-only-lookup",
  "cosmos-sdk bank BaseKeeper.BlockedAddr: membership test in the blocked-address table fixed at construction"),
 ("x/rvesting/keeper/*", "*", "process-state", "(Keeper).accountKeeper method:GetModuleAddress", "class:read-only-lookup",
  "cosmos-sdk auth AccountKeeper.GetModuleAddress: lookup in the module-permission table fixed at construction"),
 (ETH+"ethash.go", "(*lru).get", "process-state", "*", "class:vendored-ethash-per-call-instance",
  "the lru of verification caches belongs to an Ethash that VerifyCascadingFields creates for one header and closes; its content is a function of the epoch"),
 (ETH+"ethash.go", "(*Ethash).Close", "process-state", "*", "class:vendored-ethash-per-call-instance", "closes the per-call instance (sync.Once on its own field)"),
 (ETH+"ethash.go", "(*Ethash).Threads", "process-state", "*", "class:vendored-ethash-mining-unreachable", "mining API, no caller in the module"),
 # ---- process-local mutable state (kind process-state): every write outside constructors must be justified here ----
 ("x/aggregate/keeper/keeper.go", "(*Keeper).SetICS4Wrapper", "process-state", "(Keeper).ics4Wrapper assign", "class:startup-wiring",
  "wiring setter called once from app.NewTeleport (the IBC channel keeper is created after the aggregate keeper); no caller in block processing (checked by the call graph in the thorough tier)"),
 ("x/xibc/clients/light-clients/*/types/hashing.go", "rlpHash", "process-state", "var hasherPool method:Put", "class:hasher-pool",
  "sync.Pool of keccak states: every user calls Reset() before writing, the digest does not depend on which instance is reused"),
 ("x/xibc/core/packet/types/evm.go", "init*", "process-state", "var Tuple* assign", "class:startup-configuration",
  "ABI tuple types built once by the package's init() through these helpers; never written again"),
 ("x/xibc/core/client/types/genesis.go", "SetDefaultGenesisState", "process-state", "var defaultGenesis assign", "class:startup-configuration",
  "exported setter of the default genesis used before InitChain by embedding applications / tests; no caller in the module, unreachable from block processing"),
 ("x/xibc/testing/*", "*", "*", "*", "class:test-support-only", "package xibctesting is imported by tests only"),
 # ---- vendored go-ethereum ethash (PoW seal verification of the ETH light client) ----
 (ETH+"algorithm.go", "generateCache", "unsafe", "*", "class:vendored-ethash-pure-computation", "reinterprets the []uint32 cache as []byte; byte order handled by isLittleEndian/swap"),
 (ETH+"algorithm.go", "generateCache", "*", "*", "class:vendored-ethash-progress-logging", "goroutine / timer / atomics of the progress logger: reads a counter, writes log lines only"),
 (ETH+"algorithm.go", "generateDataset", "*", "*", "class:vendored-ethash-dataset-unreachable", "full DAG generation: VerifySeal is only called with fulldag=false"),
 (ETH+"ethash.go", "(*Ethash).Hashrate", "*", "*", "class:vendored-ethash-mining-unreachable", "mining API, no caller in the module"),
 (ETH+"ethash.go", "(*Ethash).SetThreads", "*", "*", "class:vendored-ethash-mining-unreachable", "mining API, no caller in the module"),
 (ETH+"ethash.go", "(*Ethash).dataset", "*", "*", "class:vendored-ethash-dataset-unreachable", "full DAG: VerifySeal is only called with fulldag=false"),
 (ETH+"ethash.go", "(*dataset).*", "*", "*", "class:vendored-ethash-dataset-unreachable", "full DAG: VerifySeal is only called with fulldag=false"),
 (ETH+"ethash.go", "(*Ethash).cache", "go", "future.generate", "class:vendored-ethash-future-cache",
  "background pre-generation of the next epoch's cache into an object the verification never reads (the Ethash instance is closed and dropped after one header); with empty CacheDir it touches memory only"),
 (ETH+"ethash.go", "(*cache).generate", "*", "*", "class:vendored-ethash-disk-cache-disabled", "disk branch (dir != \"\"): VerifyCascadingFields passes an empty CacheDir after fix C14-ethash-tmpdir"),
 (ETH+"ethash.go", "memoryMap*", "*", "*", "class:vendored-ethash-disk-cache-disabled", "only called from the disk branch of generate"),
 (ETH+"ethash.go", "isLittleEndian", "unsafe", "*", "class:vendored-ethash-pure-computation", "probes the byte order of the host; the result selects a byte swap so that the cache content is host independent"),
 (ETH+"ethash.go", "<pkginit>", "*", "*", "class:vendored-ethash-pure-computation", "field types of the cache / dataset / Ethash structs (file handle, once, mutex, rand for mining)"),
 (ETH+"sealer.go", "startRemoteSealer", "go", "s.loop", "class:vendored-ethash-sealer-loop-idle",
  "New() starts the remote-sealer loop, Close() stops it; during a verification it receives nothing and touches only its own fields"),
 (ETH+"sealer.go", "(*remoteSealer).loop", "*", "*", "class:vendored-ethash-sealer-loop-idle", "see startRemoteSealer: idle loop, own fields only"),
 (ETH+"sealer.go", "(*remoteSealer).makeWork", "*", "*", "class:vendored-ethash-sealer-loop-idle",
  "called by the loop only when a work package arrives on workCh; nobody sends one during a verification; writes the per-instance sealer's own fields"),
 (ETH+"sealer.go", "(*remoteSealer).sendNotification", "*", "*", "class:vendored-ethash-sealer-loop-idle",
  "started by notifyWork (see there); never during a verification"),
 (ETH+"sealer.go", "(*remoteSealer).notifyWork", "*", "*", "class:vendored-ethash-sealer-loop-idle",
  "called by the loop only when a work package arrives on workCh; nobody sends one during a verification (found by the call-graph refinement: statically reachable from New)"),
 (ETH+"sealer.go", "(*remoteSealer).submitWork", "*", "*", "class:vendored-ethash-sealer-loop-idle",
  "called by the loop only when a result arrives on submitWorkCh; nobody sends one during a verification (found by the call-graph refinement: statically reachable from New)"),
 (ETH+"sealer.go", "*", "*", "*", "class:vendored-ethash-mining-unreachable", "mining (Seal / mine / remote work submission): no caller in the module"),
 (ETH+"verify_header.go", "(*Ethash).VerifySeal", "runtime", "runtime.KeepAlive", "class:vendored-ethash-pure-computation", "keeps the cache alive until hashimotoLight returns"),
]

CLASSES = sorted({r[4][6:] for r in RULES if r[4].startswith("class:")} | {"sorted-before-use", "order-independent-body", "cli-or-query-only"})

def main():
    sites = json.load(open(sys.argv[1]))
    out = []
    for s in sites:
        for (f, fn, k, e, d, why) in RULES:
            if fnmatch.fnmatchcase(s["file"], f) and fnmatch.fnmatchcase(s["func"], fn) and fnmatch.fnmatchcase(s["kind"], k) and fnmatch.fnmatchcase(s["expr"], e):
                out.append({"file": s["file"], "func": s["func"], "kind": s["kind"], "expr": s["expr"], "discharge": d, "reason": why})
                break
    doc = {"comment": "C14 site expectations: every order-/environment-dependent site of the state-machine code (tools/nondetsites) with its discharge — a Lean theorem of Proofs/C14.lean or a class with a reason. Sites whose map-range body is syntactically order-independent are classified by the tool and need no entry. A site without entry breaks the check. Written by tools/nondetsites/mkexpect.py from a reviewed tree (/repo with fixes C14-ethash-tmpdir and C14-typed-event-order applied).",
           "classes": CLASSES, "sites": out}
    json.dump(doc, sys.stdout, indent=1)
    sys.stdout.write("\n")

main()
