package main

// Site kind `process-state`: process-local mutable state written by state-machine code.
//
// A node's result for a block may depend only on (committed state, block). Anything a keeper / module / hook / ante
// object keeps in its own Go memory — a memo map, a cache slice, a counter behind a pointer, a package-level
// variable — survives discarded executions (CheckTx, Simulate, queries, a rolled-back multi-message transaction)
// and differs between a node that has just restarted / state-synced and one that has not. Such state is
// invisible to a replay of successful traffic, so it is inventoried statically:
//
//   * RESIDENT struct types: module-defined structs that are not protobuf messages and are (a) named like
//     infrastructure (…Keeper, AppModule…, …Hooks, …HookAdapter, …Decorator, …Middleware, Manager, Teleport,
//     …Handler, …Server, Module), or (b) the receiver of a block-processing root (msg-server method, BeginBlock,
//     PostTxProcessing, AnteHandle, IBC callback …), or (c) reachable from (a)/(b) through struct fields
//     (pointers, slices, map values included);
//   * a WRITE is: assignment / op-assignment / ++ / -- to a field of a resident struct (through a pointer or a
//     package-level variable, or by index into a map / slice field — these are shared even through a value
//     receiver), `delete(field, k)`, `field = append(field, …)`, a mutating method (Add, Set, Put, Store, Delete,
//     Remove, Purge, Push, Insert, LoadOrStore, Swap, Reset, Write …) called on a field whose type comes from
//     outside the module when no argument is an sdk.Context (context-scoped writes go to the block's store), and
//     any such write to a package-level variable;
//   * constructors (`New…`), `init` functions and package-level initialisers are exempt (they run before the first block).
//
// Every hit needs an entry in props/sites-C14.json (justified, e.g. content-addressed and deterministic) or it is a finding.

import (
	"go/ast"
	"go/token"
	"go/types"
	"regexp"
	"strings"

	"golang.org/x/tools/go/packages"
)

const modulePrefix = "github.com/teleport-network/teleport"

var residentName = regexp.MustCompile(`(Keeper|AppModule|AppModuleBasic|Module|Hooks?|HookAdapter|Adapter|Decorator|Middleware|Manager|Teleport|Handler|Server|Router)$`)

var mutatingMethod = map[string]bool{"Add": true, "Set": true, "Put": true, "Store": true, "Delete": true, "Remove": true, "Purge": true, "Push": true,
	"Insert": true, "Append": true, "LoadOrStore": true, "LoadAndDelete": true, "Swap": true, "CompareAndSwap": true, "Reset": true, "Write": true,
	"ContainsOrAdd": true, "PeekOrAdd": true, "RemoveOldest": true, "Resize": true, "Inc": true, "Dec": true, "Update": true}

type procState struct {
	resident map[*types.TypeName]bool
}

func inModule(p *types.Package) bool {
	return p != nil && strings.HasPrefix(p.Path(), modulePrefix)
}

func isProtoMessage(t types.Type) bool {
	for _, tt := range []types.Type{t, types.NewPointer(t)} {
		if obj, _, _ := types.LookupFieldOrMethod(tt, true, nil, "ProtoMessage"); obj != nil {
			if _, ok := obj.(*types.Func); ok {
				return true
			}
		}
	}
	return false
}

func namedStruct(t types.Type) (*types.Named, *types.Struct) {
	for {
		switch x := t.(type) {
		case *types.Pointer:
			t = x.Elem()
			continue
		case *types.Slice:
			t = x.Elem()
			continue
		case *types.Array:
			t = x.Elem()
			continue
		case *types.Map:
			t = x.Elem()
			continue
		}
		break
	}
	n, ok := t.(*types.Named)
	if !ok {
		return nil, nil
	}
	s, ok := n.Underlying().(*types.Struct)
	if !ok {
		return nil, nil
	}
	return n, s
}

// computeResident determines the resident struct types of the module.
func computeResident(pkgs []*packages.Package) *procState {
	ps := &procState{resident: map[*types.TypeName]bool{}}
	var work []*types.Named
	addT := func(n *types.Named) {
		if n == nil || !inModule(n.Obj().Pkg()) || ps.resident[n.Obj()] || isProtoMessage(n) {
			return
		}
		if _, ok := n.Underlying().(*types.Struct); !ok {
			return
		}
		ps.resident[n.Obj()] = true
		work = append(work, n)
	}
	packages.Visit(pkgs, nil, func(p *packages.Package) {
		if p.Types == nil || !inModule(p.Types) {
			return
		}
		sc := p.Types.Scope()
		for _, name := range sc.Names() {
			if gv, ok := sc.Lookup(name).(*types.Var); ok {
				// a module struct held in a package-level variable lives as long as the process
				gn, _ := namedStruct(gv.Type())
				addT(gn)
				continue
			}
			tn, ok := sc.Lookup(name).(*types.TypeName)
			if !ok {
				continue
			}
			n, ok := tn.Type().(*types.Named)
			if !ok {
				continue
			}
			if residentName.MatchString(name) {
				addT(n)
				continue
			}
			// receiver of a block-processing root
			for i := 0; i < n.NumMethods(); i++ {
				m := n.Method(i)
				sig := m.Type().(*types.Signature)
				if rootNames[m.Name()] && m.Name() != "ValidateBasic" && m.Name() != "GetSigners" {
					addT(n)
				}
				if sig.Params().Len() == 2 && sig.Results().Len() == 2 && sig.Params().At(0).Type().String() == "context.Context" {
					if pp, ok := sig.Params().At(1).Type().(*types.Pointer); ok {
						if pn, ok := pp.Elem().(*types.Named); ok && strings.HasPrefix(pn.Obj().Name(), "Msg") {
							addT(n)
						}
					}
				}
			}
		}
	})
	for len(work) > 0 {
		n := work[len(work)-1]
		work = work[:len(work)-1]
		s := n.Underlying().(*types.Struct)
		for i := 0; i < s.NumFields(); i++ {
			fn, _ := namedStruct(s.Field(i).Type())
			addT(fn)
		}
	}
	return ps
}

// mutableType: can a value of this type carry state that changes without the variable being reassigned?
func mutableType(t types.Type, depth int) bool {
	if t == nil || depth > 4 {
		return false
	}
	if n, ok := t.(*types.Named); ok && n.Obj().Pkg() != nil {
		switch n.Obj().Pkg().Path() {
		case "sync", "sync/atomic":
			return true
		}
	}
	switch u := t.Underlying().(type) {
	case *types.Map, *types.Chan, *types.Pointer, *types.Slice, *types.Signature:
		return true
	case *types.Interface:
		return true
	case *types.Struct:
		for i := 0; i < u.NumFields(); i++ {
			if mutableType(u.Field(i).Type(), depth+1) {
				return true
			}
		}
	case *types.Array:
		return mutableType(u.Elem(), depth+1)
	}
	return false
}

// errorSentinel: `var ErrX = sdkerrors.Register(…)` / errors.New(…): immutable by construction (no exported mutator)
func errorSentinel(t types.Type) bool {
	s := t.String()
	return s == "error" || s == "*github.com/cosmos/cosmos-sdk/types/errors.Error" || s == "*errors.errorString"
}

// holders inventories every package-level variable of mutable type declared in this file (kind process-state-holder):
// a new one is a finding even before anyone finds the write.
func (c *collector) holders(f *ast.File) {
	for _, d := range f.Decls {
		g, ok := d.(*ast.GenDecl)
		if !ok || g.Tok != token.VAR {
			continue
		}
		for _, sp := range g.Specs {
			vs, ok := sp.(*ast.ValueSpec)
			if !ok {
				continue
			}
			for i, id := range vs.Names {
				if id.Name == "_" {
					continue
				}
				v, ok := c.info.Defs[id].(*types.Var)
				if !ok || errorSentinel(v.Type()) || !mutableType(v.Type(), 0) {
					continue
				}
				init := ""
				if i < len(vs.Values) {
					if call, ok := vs.Values[i].(*ast.CallExpr); ok {
						init = " = " + c.src(call.Fun) + "(…)"
					} else if cl, ok := vs.Values[i].(*ast.CompositeLit); ok && cl.Type != nil {
						init = " = " + c.src(cl.Type) + "{…}"
					}
				} else if len(vs.Values) == 1 && len(vs.Names) > 1 {
					if call, ok := vs.Values[0].(*ast.CallExpr); ok {
						init = " = " + c.src(call.Fun) + "(…)"
					}
				}
				c.addAt("<pkginit>", "process-state-holder", "var "+id.Name+" "+types.TypeString(v.Type(), func(p *types.Package) string { return p.Name() })+init, id.Pos())
			}
		}
	}
}

func isCtx(t types.Type) bool {
	if t == nil {
		return false
	}
	s := t.String()
	return s == "github.com/cosmos/cosmos-sdk/types.Context" || s == "context.Context"
}

// fieldOf: is e a selection of a field of a resident struct? returns (owner type name, field name, field type)
func (c *collector) fieldOf(e ast.Expr) (string, string, types.Type, bool) {
	sel, ok := e.(*ast.SelectorExpr)
	if !ok {
		return "", "", nil, false
	}
	s, ok := c.info.Selections[sel]
	if !ok || s.Kind() != types.FieldVal {
		return "", "", nil, false
	}
	v, ok := s.Obj().(*types.Var)
	if !ok || !v.IsField() {
		return "", "", nil, false
	}
	// owner = the struct that declares the field (embedding: walk the index path)
	t := s.Recv()
	idx := s.Index()
	for i, ix := range idx {
		n, st := namedStruct(t)
		if st == nil {
			return "", "", nil, false
		}
		if i == len(idx)-1 {
			if n == nil || !c.ps.resident[n.Obj()] {
				return "", "", nil, false
			}
			return n.Obj().Name(), v.Name(), v.Type(), true
		}
		t = st.Field(ix).Type()
	}
	return "", "", nil, false
}

// shared: does a plain assignment to this field expression reach memory that outlives the call?
// (a pointer somewhere on the access path, or a package-level variable at its root)
func (c *collector) sharedPath(e ast.Expr) bool {
	for {
		switch x := e.(type) {
		case *ast.ParenExpr:
			e = x.X
		case *ast.StarExpr:
			return true
		case *ast.IndexExpr:
			return true
		case *ast.SelectorExpr:
			if t := c.info.TypeOf(x.X); t != nil {
				if _, ok := t.Underlying().(*types.Pointer); ok {
					return true
				}
			}
			if id, ok := x.X.(*ast.Ident); ok {
				if _, isPkg := c.info.Uses[id].(*types.PkgName); isPkg {
					return true // pkg.Var
				}
			}
			e = x.X
		case *ast.Ident:
			if v, ok := c.info.Uses[x].(*types.Var); ok && v.Parent() != nil && v.Pkg() != nil && v.Parent() == v.Pkg().Scope() {
				return true
			}
			return false
		default:
			return false
		}
	}
}

// globalOf: the package-level variable at the root of an lvalue (nil if none)
func (c *collector) globalOf(e ast.Expr) *types.Var {
	for {
		switch x := e.(type) {
		case *ast.ParenExpr:
			e = x.X
		case *ast.StarExpr:
			e = x.X
		case *ast.IndexExpr:
			e = x.X
		case *ast.SliceExpr:
			e = x.X
		case *ast.SelectorExpr:
			if id, ok := x.X.(*ast.Ident); ok {
				if _, isPkg := c.info.Uses[id].(*types.PkgName); isPkg {
					if v, ok := c.info.Uses[x.Sel].(*types.Var); ok {
						return v
					}
					return nil
				}
			}
			e = x.X
		case *ast.Ident:
			if v, ok := c.info.Uses[x].(*types.Var); ok && v.Parent() != nil && v.Pkg() != nil && v.Parent() == v.Pkg().Scope() {
				return v
			}
			return nil
		default:
			return nil
		}
	}
}

func (c *collector) lvalueWrite(fn string, lhs ast.Expr, how string, pos token.Pos) {
	e := lhs
	indexed := false
	for {
		switch x := e.(type) {
		case *ast.ParenExpr:
			e = x.X
			continue
		case *ast.IndexExpr:
			e = x.X
			indexed = true
			continue
		case *ast.StarExpr:
			e = x.X
			continue
		}
		break
	}
	if owner, field, _, ok := c.fieldOf(e); ok {
		if indexed {
			c.addAt(fn, "process-state", "("+owner+")."+field+" index-"+how, pos)
			return
		}
		if c.sharedPath(e) {
			c.addAt(fn, "process-state", "("+owner+")."+field+" "+how, pos)
		}
		return
	}
	if g := c.globalOf(lhs); g != nil {
		name := g.Name()
		if g.Pkg() != nil && !inModule(g.Pkg()) {
			name = g.Pkg().Name() + "." + name
		}
		if indexed {
			how = "index-" + how
		}
		c.addAt(fn, "process-state", "var "+name+" "+how, pos)
	}
}

// procWrites inventories the writes of one function body.
func (c *collector) procWrites(fn string, body ast.Node) {
	if c.ps == nil {
		return
	}
	bare := fn
	if i := strings.LastIndex(fn, ")."); i >= 0 {
		bare = fn[i+2:]
	}
	if strings.HasPrefix(bare, "New") || bare == "init" || fn == "<pkginit>" {
		return
	}
	ast.Inspect(body, func(n ast.Node) bool {
		switch x := n.(type) {
		case *ast.AssignStmt:
			if x.Tok == token.DEFINE {
				return true
			}
			how := "assign"
			for i, l := range x.Lhs {
				h := how
				if x.Tok == token.ASSIGN && i < len(x.Rhs) {
					if call, ok := x.Rhs[i].(*ast.CallExpr); ok {
						if id, ok2 := call.Fun.(*ast.Ident); ok2 && id.Name == "append" {
							h = "append"
						}
					}
				}
				c.lvalueWrite(fn, l, h, x.Pos())
			}
		case *ast.IncDecStmt:
			c.lvalueWrite(fn, x.X, "assign", x.Pos())
		case *ast.CallExpr:
			if id, ok := x.Fun.(*ast.Ident); ok && id.Name == "delete" && len(x.Args) == 2 {
				if _, isBuiltin := c.info.Uses[id].(*types.Builtin); isBuiltin {
					e := x.Args[0]
					if owner, field, _, ok2 := c.fieldOf(e); ok2 {
						c.addAt(fn, "process-state", "("+owner+")."+field+" delete", x.Pos())
					} else if g := c.globalOf(e); g != nil {
						c.addAt(fn, "process-state", "var "+g.Name()+" delete", x.Pos())
					}
				}
			}
			// sync/atomic.AddX / StoreX / SwapX / CompareAndSwapX (&field, …)
			if sel, ok := x.Fun.(*ast.SelectorExpr); ok && len(x.Args) > 0 {
				if id, ok2 := sel.X.(*ast.Ident); ok2 {
					if pn, ok3 := c.info.Uses[id].(*types.PkgName); ok3 && pn.Imported().Path() == "sync/atomic" && !strings.HasPrefix(sel.Sel.Name, "Load") {
						if u, ok4 := x.Args[0].(*ast.UnaryExpr); ok4 && u.Op == token.AND {
							c.lvalueWrite(fn, u.X, "atomic", x.Pos())
						}
					}
				}
			}
			// ANY method call on a package-level variable / resident-struct field whose type comes from outside the module
			// (pointer, interface, map, chan, sync.*, struct with internal state) is a potential write of process-local state —
			// a cache `Add`, a pool `Put`, a registry `Register…` — unless the method is provably read-only (readOnlyMethod)
			// or takes an sdk.Context / context.Context (context-scoped effects go to the block's store).
			if sel, ok := x.Fun.(*ast.SelectorExpr); ok {
				if s, ok2 := c.info.Selections[sel]; ok2 && s.Kind() == types.MethodVal {
					for _, a := range x.Args {
						if isCtx(c.info.TypeOf(a)) {
							return true
						}
					}
					recvT := c.info.TypeOf(sel.X)
					n, _ := namedOf(recvT)
					if n != nil && inModule(n.Obj().Pkg()) {
						if _, isIface := n.Underlying().(*types.Interface); !isIface {
							return true // module-defined concrete receiver: resident if held in a field / global, its own body is inventoried
						}
					}
					if readOnlyMethod(n, recvT, sel.Sel.Name) {
						return true
					}
					if owner, field, _, ok3 := c.fieldOf(sel.X); ok3 {
						c.addAt(fn, "process-state", "("+owner+")."+field+" method:"+sel.Sel.Name, x.Pos())
					} else if g := c.globalOf(sel.X); g != nil && inModule(g.Pkg()) {
						c.addAt(fn, "process-state", "var "+g.Name()+" method:"+sel.Sel.Name, x.Pos())
					}
				}
			}
		}
		return true
	})
}

// methods that cannot change their receiver, by name (value-like types: addresses, hashes, big numbers' readers, errors …)
var readOnlyName = map[string]bool{"String": true, "Error": true, "GoString": true, "Name": true, "Len": true, "Cap": true, "Bytes": true, "Hex": true,
	"Equal": true, "Equals": true, "Cmp": true, "Sign": true, "IsNil": true, "IsZero": true, "Empty": true, "Unwrap": true, "Is": true, "Uint64": true, "Int64": true,
	"BigInt": true, "IsInt64": true, "IsUint64": true, "Hash": true, "Big": true, "Format": true, "MarshalJSON": true, "Marshal": true, "Size": true}

// read-only methods of specific dependency types whose instances are immutable once constructed / sealed
var readOnlyTyped = map[string]*regexp.Regexp{
	// codecs: (un)marshalling does not change the codec; Register… / Seal do
	"github.com/cosmos/cosmos-sdk/codec":       regexp.MustCompile(`^(Must)?(Marshal|Unmarshal|UnpackAny|InterfaceRegistry|GetMsgV1Signers|MarshalInterface|UnmarshalInterface|MarshalJSON|UnmarshalJSON|MarshalLengthPrefixed|UnmarshalLengthPrefixed|MarshalInterfaceJSON|UnmarshalInterfaceJSON|MarshalBinaryBare|UnmarshalBinaryBare)`),
	"github.com/cosmos/cosmos-sdk/codec/types": regexp.MustCompile(`^(UnpackAny|Resolve|ListAllInterfaces|ListImplementations)$`),
	// a parsed ABI is a table: packing / unpacking / lookups read it
	"github.com/ethereum/go-ethereum/accounts/abi": regexp.MustCompile(`^(Pack|Unpack|UnpackIntoInterface|UnpackIntoMap|MethodById|EventByID|PackValues|UnpackValues|NonIndexed|Copy)$`),
	// store keys, message routers: lookups
	"github.com/cosmos/cosmos-sdk/store/types": regexp.MustCompile(`^(Name|String)$`),
	"github.com/cosmos/cosmos-sdk/baseapp":     regexp.MustCompile(`^(Handler|HandlerByTypeURL|LastBlockHeight|LastCommitID|Logger|Name|Version)$`),
	"github.com/cosmos/cosmos-sdk/x/params/types": regexp.MustCompile(`^(HasKeyTable|Name)$`),
	"github.com/cosmos/cosmos-sdk/types/module": regexp.MustCompile(`^(GetVersionMap)$`),
	"time":                                     regexp.MustCompile(`^([A-TV-Z]|U[^n])`), // every method of time.Time / Duration except Unmarshal…
	"math/big":                                 regexp.MustCompile(`^(Cmp|CmpAbs|Sign|Bytes|String|Text|Uint64|Int64|IsInt64|IsUint64|BitLen|Bit|FillBytes|Append|Format|ProbablyPrime)$`),
}

func readOnlyMethod(n *types.Named, recvT types.Type, name string) bool {
	if readOnlyName[name] {
		return true
	}
	if n != nil && n.Obj().Pkg() != nil {
		if re, ok := readOnlyTyped[n.Obj().Pkg().Path()]; ok && re.MatchString(name) {
			return true
		}
	}
	return false
}

func namedOf(t types.Type) (*types.Named, bool) {
	if t == nil {
		return nil, false
	}
	if p, ok := t.(*types.Pointer); ok {
		t = p.Elem()
	}
	n, ok := t.(*types.Named)
	return n, ok
}
