package main

// Site kinds `execution-context-capture` and `error-text-in-consensus-data`.
//
// execution-context-capture — a value that records HOW the process got here is turned into text:
//   * a `%+v` / `%#v` verb whose operand is an error (cosmos-sdk / pkg/errors wrapped errors print their STACK
//     TRACE with `%+v`: call path into DeliverTx + absolute source paths of the build), contains an error, or
//     is an empty interface;
//   * pkg/errors.WithStack reaching code, runtime.Caller / Callers / CallersFrames / FuncForPC / Stack,
//     runtime/debug.Stack / PrintStack / ReadBuildInfo.
//   (`%p`, `%v` of pointers / maps / funcs / chans are kind fmt-addr / fmt-map; os.Args / Executable / Getwd /
//   Hostname / Getpid / Environ are kind env.)
//   Exempt: the text provably goes only to a logger (it is an argument of a Logger method call).
//
// error-text-in-consensus-data — the TEXT of an error is used as a value: `err.Error()`, an error operand of
//   `%s` / `%v` / `%q` or of Sprint/Sprintln, unless the text only builds another error (fmt.Errorf, errors.New,
//   sdkerrors.Wrap/Wrapf …: it ends in the ABCI log, which is not consensus data), goes to a logger or to panic.
//   Everything else (an acknowledgement message, an event attribute, a stored field) needs a justification:
//   cosmos-sdk v0.45.2 `errors.Wrap(...).Error()` is "<msg>: <parent>" — no stack, no file:line — so the text is a
//   function of the error chain; what remains to be reviewed is that the chain itself is deterministic.

import (
	"go/ast"
	"go/types"
	"strings"
)

var errorIface = types.Universe.Lookup("error").Type().Underlying().(*types.Interface)

func errorish(t types.Type) bool {
	if t == nil {
		return false
	}
	return types.Implements(t, errorIface)
}

func containsError(t types.Type, depth int) bool {
	if t == nil || depth > 3 {
		return false
	}
	if errorish(t) {
		return true
	}
	switch u := t.Underlying().(type) {
	case *types.Pointer:
		return containsError(u.Elem(), depth+1)
	case *types.Struct:
		for i := 0; i < u.NumFields(); i++ {
			if containsError(u.Field(i).Type(), depth+1) {
				return true
			}
		}
	case *types.Slice:
		return containsError(u.Elem(), depth+1)
	case *types.Interface:
		return u.NumMethods() == 0 // empty interface: may hold an error
	}
	return false
}

// calleeName: "pkgname.Func" for package-level functions, "" otherwise; path = import path
func (c *collector) calleeName(call *ast.CallExpr) (string, string) {
	sel, ok := call.Fun.(*ast.SelectorExpr)
	if !ok {
		return "", ""
	}
	id, ok := sel.X.(*ast.Ident)
	if !ok {
		return "", ""
	}
	pn, ok := c.info.Uses[id].(*types.PkgName)
	if !ok {
		return "", ""
	}
	name := pn.Imported().Name() + "." + sel.Sel.Name
	if pn.Imported().Path() == "github.com/cosmos/cosmos-sdk/types/errors" {
		name = "sdkerrors." + sel.Sel.Name
	}
	return name, pn.Imported().Path()
}

var loggerMethods = map[string]bool{"Debug": true, "Info": true, "Warn": true, "Error": true, "Trace": true, "Crit": true, "With": true}

func (c *collector) isLoggerCall(call *ast.CallExpr) bool {
	sel, ok := call.Fun.(*ast.SelectorExpr)
	if !ok || !loggerMethods[sel.Sel.Name] {
		return false
	}
	t := c.info.TypeOf(sel.X)
	if t == nil {
		return false
	}
	if n, ok := namedOf(t); ok && n != nil && strings.Contains(n.Obj().Name(), "Logger") {
		return true
	}
	return strings.Contains(t.String(), "log.Logger")
}

func isErrorConstructor(name, path string) bool {
	switch name {
	case "fmt.Errorf", "errors.New", "errors.Errorf", "errors.Wrap", "errors.Wrapf", "errors.WithMessage", "errors.WithMessagef",
		"sdkerrors.Wrap", "sdkerrors.Wrapf", "sdkerrors.New", "sdkerrors.Register", "status.Error", "status.Errorf":
		return true
	}
	return false
}

func isTextTransformer(name string) bool {
	return name == "fmt.Sprintf" || name == "fmt.Sprint" || name == "fmt.Sprintln" || strings.HasPrefix(name, "strings.")
}

// sink: where does the text produced at the top of `stack` go? "logger" | "error" | "panic" | "" (a value)
func (c *collector) sink(stack []ast.Node) string {
	for i := len(stack) - 1; i >= 0; i-- {
		call, ok := stack[i].(*ast.CallExpr)
		if !ok {
			switch stack[i].(type) {
			case *ast.ParenExpr, *ast.BinaryExpr:
				continue
			case *ast.ReturnStmt, *ast.AssignStmt, *ast.KeyValueExpr, *ast.CompositeLit, *ast.ExprStmt:
				return ""
			}
			continue
		}
		if c.isLoggerCall(call) {
			return "logger"
		}
		if id, ok := call.Fun.(*ast.Ident); ok && id.Name == "panic" {
			return "panic"
		}
		name, path := c.calleeName(call)
		if isErrorConstructor(name, path) {
			return "error"
		}
		if isTextTransformer(name) {
			continue
		}
		// conversions string(x), []byte(x) are transparent
		if tv, ok := c.info.Types[call.Fun]; ok && tv.IsType() {
			continue
		}
		return ""
	}
	return ""
}

var captureFuncs = map[string]bool{
	"errors.WithStack": true, "runtime.Caller": true, "runtime.Callers": true, "runtime.CallersFrames": true, "runtime.FuncForPC": true, "runtime.Stack": true,
	"debug.Stack": true, "debug.PrintStack": true, "debug.ReadBuildInfo": true,
}

func (c *collector) errText(fn string, body ast.Node) {
	var stack []ast.Node
	ast.Inspect(body, func(n ast.Node) bool {
		if n == nil {
			stack = stack[:len(stack)-1]
			return true
		}
		stack = append(stack, n)
		call, ok := n.(*ast.CallExpr)
		if !ok {
			return true
		}
		parents := stack[:len(stack)-1]
		// x.Error()
		if sel, ok := call.Fun.(*ast.SelectorExpr); ok && sel.Sel.Name == "Error" && len(call.Args) == 0 {
			if errorish(c.info.TypeOf(sel.X)) && c.sink(parents) == "" {
				c.addAt(fn, "error-text-in-consensus-data", c.src(sel.X)+".Error()", call.Pos())
			}
			return true
		}
		name, path := c.calleeName(call)
		if captureFuncs[name] && (path == "runtime" || path == "runtime/debug" || path == "github.com/pkg/errors") {
			if c.sink(parents) != "logger" {
				c.addAt(fn, "execution-context-capture", name, call.Pos())
			}
			return true
		}
		fi, isFmt := fmtFuncs[name]
		if !isFmt {
			return true
		}
		snk := c.sink(parents)
		if isErrorConstructor(name, path) && snk == "" {
			snk = "error"
		}
		var operands []ast.Expr
		switch {
		case fi >= 0:
			if len(call.Args) <= fi {
				return true
			}
			operands = call.Args[fi+1:]
			if tv, ok := c.info.Types[call.Args[fi]]; ok && tv.Value != nil {
				f := strings.Trim(tv.Value.ExactString(), `"`)
				ai := 0
				for _, v := range verbRe.FindAllStringSubmatch(f, -1) {
					verb := v[3]
					if verb == "%" {
						continue
					}
					if ai < len(operands) {
						o := operands[ai]
						t := c.info.TypeOf(o)
						plus := strings.ContainsAny(v[0][:len(v[0])-1], "+#")
						switch {
						case verb == "v" && plus && containsError(t, 0):
							if snk != "logger" {
								c.addAt(fn, "execution-context-capture", name+" "+v[0]+" "+c.src(o), call.Pos())
							}
						case (verb == "s" || verb == "v" || verb == "q") && errorish(t):
							if snk == "" {
								c.addAt(fn, "error-text-in-consensus-data", name+" %"+verb+" "+c.src(o), call.Pos())
							}
						}
					}
					ai++
				}
				return true
			}
		case fi == -1:
			operands = call.Args
		case fi == -2:
			if len(call.Args) > 0 {
				operands = call.Args[1:]
			}
		}
		for _, o := range operands {
			if errorish(c.info.TypeOf(o)) && snk == "" {
				c.addAt(fn, "error-text-in-consensus-data", name+" operand "+c.src(o), call.Pos())
			}
		}
		return true
	})
}
