package main

// Site kind `node-local-config`: NODE-LOCAL configuration that flows into state-machine objects.
//
// A node's result for a block may depend only on (committed state, block) — not on app.toml / config.toml / command
// line flags / the home directory of the operator. In app/ and cmd/ every value that comes from
//
//	servertypes.AppOptions (appOpts.Get(…), the AppOptions value itself), viper, cobra / pflag flag values,
//	cosmos-sdk server/config, ethermint server/config, tendermint config structures,
//	the parameters an app creator hands on (home path, invCheckPeriod, skipUpgradeHeights, traceStore, loadLatest,
//	baseapp options) — followed inter-procedurally from cmd's app creator into app.NewTeleport,
//
// is tracked through locals, conversions (cast.To…, filepath.Join, strings / fmt helpers) and helper calls, and every
// FLOW of such a value into
//
//	a constructor / setter / option call (New…, Set…, With…, Register…, Init…, Load…, Mount…) that is not itself in app/ or
//	cmd/ — keeper, module, ante-handler constructors, baseapp options —, a composite literal of a dependency options
//	struct (ante.HandlerOptions{…}), or a field of a resident struct (app.invCheckPeriod = …)
//
// is a site `<option> -> <destination>`. Each needs a justification in props/sites-C14.json (why the option cannot change
// results); a NEW flow is a finding.

import (
	"go/ast"
	"go/token"
	"go/types"
	"regexp"
	"strings"
)

var configPkgs = map[string]bool{
	"github.com/spf13/viper": true, "github.com/spf13/pflag": true,
	"github.com/cosmos/cosmos-sdk/server/config": true, "github.com/tharsis/ethermint/server/config": true,
	"github.com/tendermint/tendermint/config": true,
}

var sinkName = regexp.MustCompile(`^(New|Set|With|Register|Init|Load|Mount)`)

var transparentPkgs = map[string]bool{"github.com/spf13/cast": true, "path/filepath": true, "strings": true, "fmt": true, "strconv": true, "path": true}

type cfgFunc struct {
	decl *ast.FuncDecl
	c    *collector
	obj  *types.Func
}

var cfgParamTaint = map[*types.Func]map[int]string{}

func isAppOptions(t types.Type) bool {
	n, ok := namedOf(t)
	return ok && n != nil && n.Obj().Name() == "AppOptions" && n.Obj().Pkg() != nil && strings.HasSuffix(n.Obj().Pkg().Path(), "server/types")
}

func configTyped(t types.Type) bool {
	n, ok := namedOf(t)
	return ok && n != nil && n.Obj().Pkg() != nil && configPkgs[n.Obj().Pkg().Path()]
}

type cfgCtx struct {
	c     *collector
	fn    string
	obj   *types.Func
	tvar  map[*types.Var]string
	emit  bool
	again map[*types.Func]bool
	funcs map[*types.Func]*cfgFunc
}

func (a *cfgCtx) label(e ast.Expr) string {
	if e == nil {
		return ""
	}
	switch x := e.(type) {
	case *ast.ParenExpr:
		return a.label(x.X)
	case *ast.Ident:
		if v, ok := a.c.info.Uses[x].(*types.Var); ok {
			if l := a.tvar[v]; l != "" {
				return l
			}
		}
		if t := a.c.info.TypeOf(x); t != nil && (isAppOptions(t) || configTyped(t)) {
			return x.Name + " (whole)"
		}
		return ""
	case *ast.SelectorExpr:
		if t := a.c.info.TypeOf(x); t != nil && configTyped(t) {
			return a.c.src(x)
		}
		return a.label(x.X)
	case *ast.StarExpr:
		return a.label(x.X)
	case *ast.UnaryExpr:
		return a.label(x.X)
	case *ast.BinaryExpr:
		if l := a.label(x.X); l != "" {
			return l
		}
		return a.label(x.Y)
	case *ast.IndexExpr:
		return a.label(x.X)
	case *ast.SliceExpr:
		return a.label(x.X)
	case *ast.TypeAssertExpr:
		return a.label(x.X)
	case *ast.CompositeLit:
		// a struct literal with one configured field does not make the whole object "configuration" (the field flow is
		// reported as a sink of its own); slices / maps / arrays of configured values do
		if t := a.c.info.TypeOf(x); t != nil {
			if _, isStruct := t.Underlying().(*types.Struct); isStruct {
				return ""
			}
		}
		for _, el := range x.Elts {
			if kv, ok := el.(*ast.KeyValueExpr); ok {
				el = kv.Value
			}
			if l := a.label(el); l != "" {
				return l
			}
		}
		return ""
	case *ast.FuncLit:
		return ""
	case *ast.CallExpr:
		// appOpts.Get(key) / viper.GetX(key) / flags.GetX(name)
		if sel, ok := x.Fun.(*ast.SelectorExpr); ok {
			rt := a.c.info.TypeOf(sel.X)
			if rt != nil && (isAppOptions(rt) || configTyped(rt)) && strings.HasPrefix(sel.Sel.Name, "Get") && len(x.Args) > 0 {
				return a.c.src(x.Args[0])
			}
			if id, ok2 := sel.X.(*ast.Ident); ok2 {
				if pn, ok3 := a.c.info.Uses[id].(*types.PkgName); ok3 && configPkgs[pn.Imported().Path()] && strings.HasPrefix(sel.Sel.Name, "Get") && len(x.Args) > 0 {
					return a.c.src(x.Args[0])
				}
			}
		}
		// conversions, helpers: tainted if an argument (or the receiver) is
		for _, arg := range x.Args {
			if l := a.label(arg); l != "" {
				return l
			}
		}
		if sel, ok := x.Fun.(*ast.SelectorExpr); ok {
			if s, ok2 := a.c.info.Selections[sel]; ok2 && s.Kind() == types.MethodVal {
				return a.label(sel.X)
			}
		}
		return ""
	}
	return ""
}

func (a *cfgCtx) taint(lhs ast.Expr, l string) bool {
	if l == "" {
		return false
	}
	id, ok := lhs.(*ast.Ident)
	if !ok {
		// m[k] = tainted : the container becomes tainted
		if ix, ok2 := lhs.(*ast.IndexExpr); ok2 {
			return a.taint(ix.X, l)
		}
		return false
	}
	v, ok := a.c.info.Defs[id].(*types.Var)
	if !ok {
		v, ok = a.c.info.Uses[id].(*types.Var)
	}
	if !ok || v == nil || a.tvar[v] != "" {
		return false
	}
	a.tvar[v] = l
	return true
}

func (a *cfgCtx) calleeOf(call *ast.CallExpr) (*types.Func, string, string) {
	switch f := call.Fun.(type) {
	case *ast.Ident:
		if fo, ok := a.c.info.Uses[f].(*types.Func); ok {
			return fo, fo.Name(), pkgPath(fo)
		}
	case *ast.SelectorExpr:
		if s, ok := a.c.info.Selections[f]; ok && s.Kind() == types.MethodVal {
			if fo, ok2 := s.Obj().(*types.Func); ok2 {
				recv := ""
				if n, _ := namedOf(s.Recv()); n != nil {
					recv = n.Obj().Name() + "."
				}
				return fo, recv + fo.Name(), pkgPath(fo)
			}
		}
		if fo, ok := a.c.info.Uses[f.Sel].(*types.Func); ok {
			return fo, shortPkg(pkgPath(fo)) + "." + fo.Name(), pkgPath(fo)
		}
	}
	return nil, "", ""
}

// shortPkg: the last two segments of an import path (x/upgrade/keeper -> upgrade/keeper): `keeper.NewKeeper` alone is ambiguous
func shortPkg(path string) string {
	parts := strings.Split(path, "/")
	if len(parts) >= 2 && (parts[len(parts)-1] == "keeper" || parts[len(parts)-1] == "types" || parts[len(parts)-1] == "module") {
		return parts[len(parts)-2] + "/" + parts[len(parts)-1]
	}
	return parts[len(parts)-1]
}

func pkgPath(f *types.Func) string {
	if f.Pkg() == nil {
		return ""
	}
	return f.Pkg().Path()
}

func isAppOrCmd(path string) bool {
	return strings.HasPrefix(path, modulePrefix+"/app") || strings.HasPrefix(path, modulePrefix+"/cmd")
}

func (a *cfgCtx) run(body ast.Node) {
	// propagation to a fixed point
	for iter := 0; iter < 8; iter++ {
		changed := false
		ast.Inspect(body, func(n ast.Node) bool {
			switch x := n.(type) {
			case *ast.AssignStmt:
				if len(x.Lhs) == len(x.Rhs) {
					for i := range x.Lhs {
						if a.taint(x.Lhs[i], a.label(x.Rhs[i])) {
							changed = true
						}
						// m[configuredKey] = v : the container depends on the configuration
						if ix, ok := x.Lhs[i].(*ast.IndexExpr); ok {
							if a.taint(ix.X, a.label(ix.Index)) {
								changed = true
							}
						}
					}
				} else if len(x.Rhs) == 1 {
					if l := a.label(x.Rhs[0]); l != "" {
						for _, lh := range x.Lhs {
							if a.taint(lh, l) {
								changed = true
							}
						}
					}
				}
			case *ast.ValueSpec:
				for i, id := range x.Names {
					if i < len(x.Values) && a.taint(id, a.label(x.Values[i])) {
						changed = true
					}
				}
			case *ast.RangeStmt:
				if l := a.label(x.X); l != "" {
					if x.Key != nil && a.taint(x.Key, l) {
						changed = true
					}
					if x.Value != nil && a.taint(x.Value, l) {
						changed = true
					}
				}
			case *ast.IfStmt:
				// `if cast.ToBool(appOpts.Get(F)) { cache = … }` : what is assigned under a config-dependent condition depends on it
				if l := a.label(x.Cond); l != "" {
					ast.Inspect(x.Body, func(m ast.Node) bool {
						if as, ok := m.(*ast.AssignStmt); ok && as.Tok == token.ASSIGN {
							for _, lh := range as.Lhs {
								if a.taint(lh, l+" (condition)") {
									changed = true
								}
							}
						}
						return true
					})
				}
			}
			return true
		})
		if !changed {
			break
		}
	}
	// sinks
	ast.Inspect(body, func(n ast.Node) bool {
		switch x := n.(type) {
		case *ast.CallExpr:
			fo, name, path := a.calleeOf(x)
			if fo == nil {
				return true
			}
			var labels []string
			var idx []int
			for i, arg := range x.Args {
				if l := a.label(arg); l != "" {
					// a nested sink call (baseapp.SetX(tainted)) is reported on its own, not again at the outer call
					if inner, ok := arg.(*ast.CallExpr); ok {
						if _, iname, ipath := a.calleeOf(inner); iname != "" && !isAppOrCmd(ipath) && sinkName.MatchString(lastName(iname)) && !transparentPkgs[ipath] {
							continue
						}
					}
					labels = append(labels, l)
					idx = append(idx, i)
				}
			}
			if len(labels) == 0 {
				return true
			}
			if transparentPkgs[path] {
				return true
			}
			if isAppOrCmd(path) {
				// inter-procedural: the callee's parameters become sources
				if cf := a.funcs[fo]; cf != nil {
					sig := fo.Type().(*types.Signature)
					for k, i := range idx {
						pi := i
						if sig.Variadic() && pi >= sig.Params().Len()-1 {
							pi = sig.Params().Len() - 1
						}
						if cfgParamTaint[fo] == nil {
							cfgParamTaint[fo] = map[int]string{}
						}
						if cfgParamTaint[fo][pi] == "" {
							cfgParamTaint[fo][pi] = labels[k]
							a.again[fo] = true
						}
					}
				}
				return true
			}
			if !sinkName.MatchString(lastName(name)) {
				return true
			}
			if a.emit {
				for _, l := range dedupStr(labels) {
					a.c.addAt(a.fn, "node-local-config", l+" -> "+name, x.Pos())
				}
			}
		case *ast.AssignStmt:
			if x.Tok != token.ASSIGN || !a.emit {
				return true
			}
			for i, lh := range x.Lhs {
				if owner, field, _, ok := a.c.fieldOf(lh); ok && i < len(x.Rhs) {
					if l := a.label(x.Rhs[i]); l != "" {
						a.c.addAt(a.fn, "node-local-config", l+" -> field ("+owner+")."+field, x.Pos())
					}
				}
			}
		case *ast.CompositeLit:
			if !a.emit {
				return true
			}
			t := a.c.info.TypeOf(x)
			n, _ := namedStruct(t)
			if n == nil {
				return true
			}
			resident := a.c.ps != nil && a.c.ps.resident[n.Obj()]
			external := !inModule(n.Obj().Pkg())
			if !resident && !external {
				return true
			}
			for _, el := range x.Elts {
				kv, ok := el.(*ast.KeyValueExpr)
				if !ok {
					continue
				}
				if l := a.label(kv.Value); l != "" {
					dest := "field (" + n.Obj().Name() + ")." + a.c.src(kv.Key)
					if external {
						dest = n.Obj().Pkg().Name() + "." + n.Obj().Name() + "{" + a.c.src(kv.Key) + "}"
					}
					a.c.addAt(a.fn, "node-local-config", l+" -> "+dest, kv.Pos())
				}
			}
		}
		return true
	})
}

func lastName(s string) string {
	if i := strings.LastIndex(s, "."); i >= 0 {
		return s[i+1:]
	}
	return s
}

func dedupStr(l []string) []string {
	seen := map[string]bool{}
	var out []string
	for _, s := range l {
		if !seen[s] {
			seen[s] = true
			out = append(out, s)
		}
	}
	return out
}

// nodeConfigSites analyses the functions of app/ and cmd/ (given with their collectors) to a fixed point of the
// parameter taints, then emits the sites.
func nodeConfigSites(funcs []*cfgFunc) {
	byObj := map[*types.Func]*cfgFunc{}
	for _, f := range funcs {
		byObj[f.obj] = f
	}
	analyse := func(f *cfgFunc, emit bool, again map[*types.Func]bool) {
		a := &cfgCtx{c: f.c, fn: funcName(f.decl), obj: f.obj, tvar: map[*types.Var]string{}, emit: emit, again: again, funcs: byObj}
		sig := f.obj.Type().(*types.Signature)
		// parameters: by type, by the app-creator convention, by inter-procedural taint
		i := 0
		for _, fld := range f.decl.Type.Params.List {
			for _, id := range fld.Names {
				v, _ := f.c.info.Defs[id].(*types.Var)
				if v != nil {
					switch {
					case isAppOptions(v.Type()) || configTyped(v.Type()):
						a.tvar[v] = id.Name + " (whole)"
					case cfgParamTaint[f.obj][i] != "":
						a.tvar[v] = cfgParamTaint[f.obj][i]
					case id.Name == "traceStore":
						a.tvar[v] = "param traceStore (--trace-store)"
					}
				}
				i++
			}
		}
		_ = sig
		a.run(f.decl.Body)
	}
	// entry functions: everything in app/, and in cmd/ the app creators (functions that receive the AppOptions)
	entry := func(f *cfgFunc) bool {
		if f.obj.Pkg() != nil && strings.HasPrefix(f.obj.Pkg().Path(), modulePrefix+"/app") {
			return true
		}
		sig := f.obj.Type().(*types.Signature)
		for i := 0; i < sig.Params().Len(); i++ {
			if isAppOptions(sig.Params().At(i).Type()) {
				return true
			}
		}
		return false
	}
	work := map[*types.Func]bool{}
	for _, f := range funcs {
		if entry(f) {
			work[f.obj] = true
		}
	}
	for round := 0; round < 6 && len(work) > 0; round++ {
		next := map[*types.Func]bool{}
		for obj := range work {
			if f := byObj[obj]; f != nil && f.decl.Body != nil {
				analyse(f, false, next)
			}
		}
		work = next
	}
	for _, f := range funcs {
		if f.decl.Body != nil && (entry(f) || len(cfgParamTaint[f.obj]) > 0) {
			analyse(f, true, map[*types.Func]bool{})
		}
	}
}
