package main

// Site kinds `package-init-calls-config-dependent-code` and `closure-captures-loop-or-outer-var-in-map-range`.
//
// package-init-calls-config-dependent-code — package-level variable initialisers and init() functions run BEFORE main()
// configures the process (bech32 prefixes, coin type, …). A call made there (directly or through up to two levels of module
// functions) whose result depends on runtime configuration, or that writes a dependency-global cache, is a site:
//   sdk.AccAddress / ValAddress / ConsAddress .String() / .MarshalJSON / .MarshalYAML / .Format (bech32 with the CONFIGURED
//   prefix, memoised in cosmos-sdk's process-global LRU keyed by the raw bytes only), sdk.Bech32ify… / MustBech32ify…,
//   sdk.AccAddressFromBech32 / ValAddressFromBech32 / ConsAddressFromBech32 / GetFromBech32 / VerifyAddressFormat,
//   sdk.GetConfig, time.Now / Since, anything of os, math/rand, crypto/rand, viper.
// Constant computations (authtypes.NewModuleAddress, crypto hashes, abi.JSON parsing, codec construction, big.NewInt …) are
// not listed.
//
// closure-captures-loop-or-outer-var-in-map-range — a func literal created inside `for … range <map>` that is not called on
// the spot (it escapes: stored in a map / slice / field, passed on, started as goroutine) and refers to (a) the range
// variables while the module's go.mod says go < 1.22 (one variable per LOOP, the closure sees the last iteration — which one
// that is depends on the map order), or (b) a variable declared outside the loop and assigned inside it.

import (
	"go/ast"
	"go/token"
	"go/types"
	"os"
	"path/filepath"
	"regexp"
	"strconv"
	"strings"
)

var addrTypes = map[string]bool{"AccAddress": true, "ValAddress": true, "ConsAddress": true}
var addrMethods = map[string]bool{"String": true, "MarshalJSON": true, "MarshalYAML": true, "Format": true}
var sdkConfigFuncs = regexp.MustCompile(`^(Bech32ify.*|MustBech32ify.*|AccAddressFromBech32|ValAddressFromBech32|ConsAddressFromBech32|GetFromBech32|VerifyAddressFormat|GetConfig|NewConfig|MustAccAddressFromBech32)$`)

func (c *collector) configDependentCall(call *ast.CallExpr) string {
	sel, ok := call.Fun.(*ast.SelectorExpr)
	if !ok {
		return ""
	}
	if s, ok := c.info.Selections[sel]; ok && s.Kind() == types.MethodVal {
		if n, _ := namedOf(s.Recv()); n != nil && n.Obj().Pkg() != nil && n.Obj().Pkg().Path() == "github.com/cosmos/cosmos-sdk/types" && addrTypes[n.Obj().Name()] && addrMethods[sel.Sel.Name] {
			return "sdk." + n.Obj().Name() + "." + sel.Sel.Name
		}
		return ""
	}
	if id, ok := sel.X.(*ast.Ident); ok {
		if pn, ok2 := c.info.Uses[id].(*types.PkgName); ok2 {
			path := pn.Imported().Path()
			switch {
			case path == "github.com/cosmos/cosmos-sdk/types" && sdkConfigFuncs.MatchString(sel.Sel.Name):
				return "sdk." + sel.Sel.Name
			case path == "time" && (sel.Sel.Name == "Now" || sel.Sel.Name == "Since" || sel.Sel.Name == "Until"):
				return "time." + sel.Sel.Name
			case path == "os" || path == "math/rand" || path == "crypto/rand" || path == "github.com/spf13/viper" || path == "os/user":
				if _, isFunc := c.info.Uses[sel.Sel].(*types.Func); isFunc {
					return pn.Imported().Name() + "." + sel.Sel.Name
				}
			}
		}
	}
	return ""
}

// initCalls walks an initialiser / init body and the module functions it calls (two levels)
func (c *collector) initCalls(root ast.Node, what string, pos token.Pos, top *collector, depth int, via string, seen map[*types.Func]bool) {
	ast.Inspect(root, func(n ast.Node) bool {
		call, ok := n.(*ast.CallExpr)
		if !ok {
			return true
		}
		if name := c.configDependentCall(call); name != "" {
			top.addAt("<pkginit>", "package-init-calls-config-dependent-code", what+" calls "+name+via, pos)
			return true
		}
		if depth >= 2 {
			return true
		}
		var callee *types.Func
		switch f := call.Fun.(type) {
		case *ast.Ident:
			callee, _ = c.info.Uses[f].(*types.Func)
		case *ast.SelectorExpr:
			if s, ok := c.info.Selections[f]; ok {
				callee, _ = s.Obj().(*types.Func)
			} else {
				callee, _ = c.info.Uses[f.Sel].(*types.Func)
			}
		}
		if callee != nil && !seen[callee] {
			if fi := moduleFuncs[callee]; fi != nil && fi.decl.Body != nil {
				seen[callee] = true
				fi.c.initCalls(fi.decl.Body, what, pos, top, depth+1, via+" via "+callee.Name(), seen)
			}
		}
		return true
	})
}

func (c *collector) pkgInit(f *ast.File) {
	for _, d := range f.Decls {
		switch x := d.(type) {
		case *ast.GenDecl:
			if x.Tok != token.VAR {
				continue
			}
			for _, sp := range x.Specs {
				vs, ok := sp.(*ast.ValueSpec)
				if !ok {
					continue
				}
				for i, v := range vs.Values {
					name := "_"
					if i < len(vs.Names) {
						name = vs.Names[i].Name
					} else if len(vs.Names) > 0 {
						name = vs.Names[0].Name
					}
					c.initCalls(v, "var "+name+" initialiser", v.Pos(), c, 0, "", map[*types.Func]bool{})
				}
			}
		case *ast.FuncDecl:
			if x.Recv == nil && x.Name.Name == "init" && x.Body != nil {
				c.initCalls(x.Body, "init()", x.Pos(), c, 0, "", map[*types.Func]bool{})
			}
		}
	}
}

// ---- closures in map ranges -------------------------------------------------------------------------------------

var moduleGoMinor = -1

func readGoVersion(repo string) {
	b, err := os.ReadFile(filepath.Join(repo, "go.mod"))
	if err != nil {
		return
	}
	if m := regexp.MustCompile(`(?m)^go 1\.(\d+)`).FindSubmatch(b); m != nil {
		moduleGoMinor, _ = strconv.Atoi(string(m[1]))
	}
}

func (c *collector) mapRangeClosures(fn string, body ast.Node) {
	ast.Inspect(body, func(n ast.Node) bool {
		rs, ok := n.(*ast.RangeStmt)
		if !ok {
			return true
		}
		tv, ok := c.info.Types[rs.X]
		if !ok || tv.Type == nil {
			return true
		}
		if _, isMap := tv.Type.Underlying().(*types.Map); !isMap {
			return true
		}
		rangeVars := map[*types.Var]bool{}
		for _, e := range []ast.Expr{rs.Key, rs.Value} {
			if id, ok := e.(*ast.Ident); ok && id.Name != "_" {
				if v, ok2 := c.info.Defs[id].(*types.Var); ok2 {
					rangeVars[v] = true
				} else if v, ok2 := c.info.Uses[id].(*types.Var); ok2 {
					rangeVars[v] = true // `for k, v = range` with outer variables
				}
			}
		}
		// variables declared outside the loop and assigned inside it
		outerAssigned := map[*types.Var]bool{}
		ast.Inspect(rs.Body, func(m ast.Node) bool {
			if as, ok := m.(*ast.AssignStmt); ok && as.Tok != token.DEFINE {
				for _, l := range as.Lhs {
					if id, ok2 := l.(*ast.Ident); ok2 {
						if v, ok3 := c.info.Uses[id].(*types.Var); ok3 && v.Pos() < rs.Pos() && !(v.Parent() != nil && v.Pkg() != nil && v.Parent() == v.Pkg().Scope()) {
							outerAssigned[v] = true
						}
					}
				}
			}
			return true
		})
		// func literals that are not called on the spot
		called := map[*ast.FuncLit]bool{}
		ast.Inspect(rs.Body, func(m ast.Node) bool {
			if call, ok := m.(*ast.CallExpr); ok {
				if fl, ok2 := call.Fun.(*ast.FuncLit); ok2 {
					called[fl] = true
				}
			}
			if g, ok := m.(*ast.GoStmt); ok {
				if fl, ok2 := g.Call.Fun.(*ast.FuncLit); ok2 {
					delete(called, fl) // a goroutine outlives the iteration
					_ = fl
				}
			}
			return true
		})
		ast.Inspect(rs.Body, func(m ast.Node) bool {
			fl, ok := m.(*ast.FuncLit)
			if !ok || called[fl] {
				return true
			}
			var caps []string
			seen := map[*types.Var]bool{}
			ast.Inspect(fl.Body, func(k ast.Node) bool {
				if id, ok := k.(*ast.Ident); ok {
					if v, ok2 := c.info.Uses[id].(*types.Var); ok2 && !seen[v] {
						if rangeVars[v] && moduleGoMinor >= 0 && moduleGoMinor < 22 {
							seen[v] = true
							caps = append(caps, "range variable "+v.Name()+" (go 1."+strconv.Itoa(moduleGoMinor)+": one per loop)")
						} else if outerAssigned[v] {
							seen[v] = true
							caps = append(caps, "outer variable "+v.Name()+" assigned in the loop")
						}
					}
				}
				return true
			})
			if len(caps) > 0 {
				c.addAt(fn, "closure-captures-loop-or-outer-var-in-map-range", "closure in range "+c.src(rs.X)+" captures "+strings.Join(caps, ", "), fl.Pos())
			}
			return true
		})
		return true
	})
}
