package main

// Site kind `shared-constant-mutation`: an in-place write through a LOCAL ALIAS of process memory.
//
//	x := new(big.Int) … ; if … { x = params.MinimumDifficulty } … ; x.Add(x, y)     // adds into go-ethereum's global
//	d := math.BigMax(q, common.Big1) ; d.Add(d, fee)                                  // BigMax returned its argument Big1
//
// Per function (closures included), flow-insensitive may-alias analysis over the AST + types:
//
//	SOURCES  an expression MAY point into process memory if it is
//	  (a) a package-level variable of pointer / slice / map type — own module or dependency (params.MinimumDifficulty,
//	      common.Big0/Big1/…, big constants of the module) — or a pointer / slice / map field / element reached from one,
//	  (b) the result of a call that may hand back one of its arguments or a package-level pointer:
//	        * any call (function or method) with a tainted argument whose result type is a pointer / slice / map
//	          (math.BigMax, BigMin, chooser helpers),
//	        * a call of a DEPENDENCY function / method returning *big.Int / *big.Float / *big.Rat that is not a known
//	          allocator (big.NewInt, new(big.Int), sdk.Int.BigInt, uint256.Int.ToBig, common.Hash.Big, …) and not a method of
//	          big.* (those return their receiver: the result aliases the receiver),
//	        * a call of a MODULE function whose own return statements return a source (one level of summary),
//	  (c) a pointer / slice / map field of a resident struct (keeper, module, hook …: procstate.go),
//	  PROPAGATION  v := src ; v = src ; var v = src ; s.f = src (field of a local struct) ; v := w.Method(…) for big.* methods
//	      (the result IS the receiver) ; v := w[i:j] ; v := *&w … until a fixed point,
//	SINKS  an in-place mutating method of big.Int / big.Float / big.Rat whose RECEIVER may be such an alias; an index
//	      assignment, `copy(dst, …)`, `append(dst, …)` whose destination may be one; `*p = …` / `p.f = …` through one.
//
// Direct writes to own globals / resident fields are kind process-state; this kind covers the aliases and the
// globals of dependencies. A receiver that is always fresh (`new(big.Int)`, `big.NewInt`, a composite literal,
// a method on a fresh value) is not a site.

import (
	"go/ast"
	"go/token"
	"go/types"
	"strings"
)

var bigMutators = map[string]bool{"Add": true, "Sub": true, "Mul": true, "Div": true, "Mod": true, "DivMod": true, "Quo": true, "Rem": true, "QuoRem": true,
	"Exp": true, "Set": true, "SetInt64": true, "SetUint64": true, "SetBytes": true, "SetString": true, "SetBit": true, "SetBits": true, "Neg": true, "Abs": true,
	"Lsh": true, "Rsh": true, "And": true, "Or": true, "Xor": true, "Not": true, "AndNot": true, "Sqrt": true, "ModInverse": true, "ModSqrt": true, "GCD": true,
	"Rand": true, "Binomial": true, "MulRange": true, "SetFrac": true, "SetFrac64": true, "SetFloat64": true, "SetInt": true, "SetRat": true, "SetInf": true,
	"SetMantExp": true, "SetMode": true, "SetPrec": true, "Inv": true, "Copy": true, "UnmarshalJSON": true, "UnmarshalText": true, "GobDecode": true, "Scan": true,
	"FillBytes": false}

// allocators: calls whose pointer result is always freshly allocated
var allocatorFuncs = map[string]bool{
	"math/big.NewInt": true, "math/big.NewFloat": true, "math/big.NewRat": true,
	"github.com/ethereum/go-ethereum/common/hexutil.DecodeBig": true, "github.com/ethereum/go-ethereum/common/hexutil.MustDecodeBig": true,
	"github.com/ethereum/go-ethereum/common/math.ParseBig256": true, "github.com/ethereum/go-ethereum/common/math.MustParseBig256": true,
	"github.com/ethereum/go-ethereum/common/math.BigPow": true, "github.com/ethereum/go-ethereum/common/math.U256": false, // U256 works IN PLACE on its argument
	"github.com/cosmos/cosmos-sdk/types.NewIntFromBigInt": true,
}

// allocator methods (receiver type name . method): return a new big value
var allocatorMethods = map[string]bool{
	"Int.BigInt": true, "Dec.BigInt": true, "Uint.BigInt": true, // cosmos-sdk: copy of the inner value
	"Hash.Big": true, "Address.Big": true, "Int.ToBig": true, // go-ethereum common, holiman/uint256
	"Header.Hash": true,
}

var inPlaceFuncs = map[string]bool{"github.com/ethereum/go-ethereum/common/math.U256": true}

func isBigType(t types.Type) bool {
	if t == nil {
		return false
	}
	if p, ok := t.(*types.Pointer); ok {
		t = p.Elem()
	}
	n, ok := t.(*types.Named)
	if !ok || n.Obj().Pkg() == nil || n.Obj().Pkg().Path() != "math/big" {
		return false
	}
	switch n.Obj().Name() {
	case "Int", "Float", "Rat":
		return true
	}
	return false
}

func refType(t types.Type) bool {
	if t == nil {
		return false
	}
	switch t.Underlying().(type) {
	case *types.Pointer, *types.Slice, *types.Map:
		return true
	}
	return false
}

type aliasCtx struct {
	c      *collector
	fn     string
	tvar   map[*types.Var]string            // tainted locals -> origin
	tfield map[*types.Var]map[string]string // local struct var -> field -> origin
	depth  int
}

// moduleFuncs: *types.Func -> (decl, info) of every function of the module (filled by main)
type funcInfo struct {
	decl *ast.FuncDecl
	info *types.Info
	c    *collector
}

var moduleFuncs = map[*types.Func]*funcInfo{}
var returnsSource = map[*types.Func]string{} // memo: "" = fresh, otherwise origin
var returnsBusy = map[*types.Func]bool{}

func (a *aliasCtx) globalRef(e ast.Expr) (string, bool) {
	switch x := e.(type) {
	case *ast.Ident:
		if v, ok := a.c.info.Uses[x].(*types.Var); ok && v.Parent() != nil && v.Pkg() != nil && v.Parent() == v.Pkg().Scope() {
			return v.Name(), true
		}
	case *ast.SelectorExpr:
		if id, ok := x.X.(*ast.Ident); ok {
			if pn, isPkg := a.c.info.Uses[id].(*types.PkgName); isPkg {
				if v, ok := a.c.info.Uses[x.Sel].(*types.Var); ok {
					return pn.Imported().Name() + "." + v.Name(), true
				}
			}
		}
	}
	return "", false
}

// origin returns a non-empty description when e MAY evaluate to a reference into process memory.
func (a *aliasCtx) origin(e ast.Expr) string {
	if e == nil {
		return ""
	}
	t := a.c.info.TypeOf(e)
	switch x := e.(type) {
	case *ast.ParenExpr:
		return a.origin(x.X)
	case *ast.Ident:
		if name, ok := a.globalRef(x); ok {
			if refType(t) {
				return name
			}
			return ""
		}
		if v, ok := a.c.info.Uses[x].(*types.Var); ok {
			return a.tvar[v]
		}
		return ""
	case *ast.SelectorExpr:
		if name, ok := a.globalRef(x); ok {
			if refType(t) {
				return name
			}
			return ""
		}
		if !refType(t) {
			return ""
		}
		// field of a resident struct
		if owner, field, _, ok := a.c.fieldOf(x); ok {
			return "(" + owner + ")." + field
		}
		// field of a tainted aggregate / of a local struct whose field was assigned a source
		if id, ok := x.X.(*ast.Ident); ok {
			if v, ok2 := a.c.info.Uses[id].(*types.Var); ok2 {
				if o := a.tfield[v][x.Sel.Name]; o != "" {
					return o
				}
			}
		}
		if o := a.origin(x.X); o != "" {
			return o + "." + x.Sel.Name
		}
		// field of a global struct value: params.X.Field
		if name, ok := a.globalRoot(x.X); ok {
			return name + "." + x.Sel.Name
		}
		return ""
	case *ast.StarExpr:
		return a.origin(x.X)
	case *ast.UnaryExpr:
		if x.Op == token.AND {
			if name, ok := a.globalRoot(x.X); ok {
				return "&" + name
			}
			return a.origin(x.X)
		}
		return ""
	case *ast.IndexExpr:
		if refType(t) {
			if o := a.origin(x.X); o != "" {
				return o + "[…]"
			}
		}
		return ""
	case *ast.SliceExpr:
		return a.origin(x.X)
	case *ast.TypeAssertExpr:
		return a.origin(x.X)
	case *ast.CallExpr:
		return a.callOrigin(x)
	}
	return ""
}

// globalRoot: e is (a field path of) a package-level variable
func (a *aliasCtx) globalRoot(e ast.Expr) (string, bool) {
	for {
		if name, ok := a.globalRef(e); ok {
			return name, true
		}
		switch x := e.(type) {
		case *ast.SelectorExpr:
			e = x.X
		case *ast.IndexExpr:
			e = x.X
		case *ast.ParenExpr:
			e = x.X
		case *ast.StarExpr:
			e = x.X
		default:
			return "", false
		}
	}
}

func (a *aliasCtx) callOrigin(call *ast.CallExpr) string {
	t := a.c.info.TypeOf(call)
	if tup, ok := t.(*types.Tuple); ok && tup.Len() > 0 {
		t = tup.At(0).Type()
	}
	if !refType(t) {
		return ""
	}
	// conversions and builtins
	if tv, ok := a.c.info.Types[call.Fun]; ok && tv.IsType() {
		if len(call.Args) == 1 {
			return a.origin(call.Args[0])
		}
		return ""
	}
	if id, ok := call.Fun.(*ast.Ident); ok {
		if _, isB := a.c.info.Uses[id].(*types.Builtin); isB {
			switch id.Name {
			case "new", "make":
				return ""
			case "append":
				if len(call.Args) > 0 {
					return a.origin(call.Args[0])
				}
			}
			return ""
		}
	}
	var callee *types.Func
	var recv ast.Expr
	switch f := call.Fun.(type) {
	case *ast.Ident:
		callee, _ = a.c.info.Uses[f].(*types.Func)
	case *ast.SelectorExpr:
		if s, ok := a.c.info.Selections[f]; ok && s.Kind() == types.MethodVal {
			callee, _ = s.Obj().(*types.Func)
			recv = f.X
		} else {
			callee, _ = a.c.info.Uses[f.Sel].(*types.Func)
		}
	}
	// methods of big.*: the result is the receiver
	if recv != nil && isBigType(a.c.info.TypeOf(recv)) {
		return a.origin(recv)
	}
	// a tainted argument (or receiver) may be handed back
	for _, arg := range call.Args {
		if o := a.origin(arg); o != "" && refType(a.c.info.TypeOf(arg)) {
			return o + " via " + calleeLabel(callee)
		}
	}
	if callee == nil {
		return "" // call of a function value: unknown, not tracked
	}
	if callee.Pkg() == nil {
		return ""
	}
	full := callee.Pkg().Path() + "." + callee.Name()
	if allocatorFuncs[full] {
		return ""
	}
	if recv != nil {
		if n, _ := namedOf(a.c.info.TypeOf(recv)); n != nil && allocatorMethods[n.Obj().Name()+"."+callee.Name()] {
			return ""
		}
	}
	if inModule(callee.Pkg()) {
		return moduleReturnOrigin(callee)
	}
	// dependency function returning a big value that is not a known allocator: may return a package-level pointer
	if isBigType(t) {
		return "result of " + calleeLabel(callee)
	}
	return ""
}

func calleeLabel(f *types.Func) string {
	if f == nil {
		return "a function value"
	}
	if f.Pkg() != nil {
		return f.Pkg().Name() + "." + f.Name()
	}
	return f.Name()
}

// moduleReturnOrigin: does a module function return a source (one summary level, recursion guarded)?
func moduleReturnOrigin(f *types.Func) string {
	if o, ok := returnsSource[f]; ok {
		return o
	}
	fi := moduleFuncs[f]
	if fi == nil || fi.decl.Body == nil || returnsBusy[f] {
		return ""
	}
	returnsBusy[f] = true
	defer delete(returnsBusy, f)
	a := &aliasCtx{c: fi.c, fn: f.Name(), tvar: map[*types.Var]string{}, tfield: map[*types.Var]map[string]string{}}
	a.propagate(fi.decl.Body)
	res := ""
	ast.Inspect(fi.decl.Body, func(n ast.Node) bool {
		if _, ok := n.(*ast.FuncLit); ok {
			return false
		}
		if r, ok := n.(*ast.ReturnStmt); ok && res == "" {
			for _, e := range r.Results {
				if refType(fi.info.TypeOf(e)) {
					if o := a.origin(e); o != "" {
						res = o + " via " + f.Name()
						break
					}
				}
			}
		}
		return true
	})
	returnsSource[f] = res
	return res
}

func (a *aliasCtx) taintLHS(lhs ast.Expr, o string) bool {
	if o == "" {
		return false
	}
	switch x := lhs.(type) {
	case *ast.Ident:
		v, ok := a.c.info.Defs[x].(*types.Var)
		if !ok {
			v, ok = a.c.info.Uses[x].(*types.Var)
		}
		if !ok || v == nil || (v.Parent() != nil && v.Pkg() != nil && v.Parent() == v.Pkg().Scope()) {
			return false
		}
		if a.tvar[v] == "" {
			a.tvar[v] = o
			return true
		}
	case *ast.SelectorExpr:
		if id, ok := x.X.(*ast.Ident); ok {
			if v, ok2 := a.c.info.Uses[id].(*types.Var); ok2 && !(v.Parent() != nil && v.Pkg() != nil && v.Parent() == v.Pkg().Scope()) {
				if a.tfield[v] == nil {
					a.tfield[v] = map[string]string{}
				}
				if a.tfield[v][x.Sel.Name] == "" {
					a.tfield[v][x.Sel.Name] = o
					return true
				}
			}
		}
	}
	return false
}

// propagate runs the flow-insensitive assignment closure over a body.
func (a *aliasCtx) propagate(body ast.Node) {
	for iter := 0; iter < 8; iter++ {
		changed := false
		ast.Inspect(body, func(n ast.Node) bool {
			switch x := n.(type) {
			case *ast.AssignStmt:
				if len(x.Lhs) == len(x.Rhs) {
					for i := range x.Lhs {
						if refType(a.c.info.TypeOf(x.Rhs[i])) && a.taintLHS(x.Lhs[i], a.origin(x.Rhs[i])) {
							changed = true
						}
					}
				} else if len(x.Rhs) == 1 {
					if call, ok := x.Rhs[0].(*ast.CallExpr); ok {
						if o := a.callOrigin(call); o != "" && a.taintLHS(x.Lhs[0], o) {
							changed = true
						}
					}
				}
			case *ast.ValueSpec:
				for i, id := range x.Names {
					if i < len(x.Values) && refType(a.c.info.TypeOf(x.Values[i])) && a.taintLHS(id, a.origin(x.Values[i])) {
						changed = true
					}
				}
			case *ast.RangeStmt:
				// for _, v := range taintedSliceOfPointers
				if x.Value != nil && refType(a.c.info.TypeOf(x.Value)) {
					if o := a.origin(x.X); o != "" && a.taintLHS(x.Value, o+"[…]") {
						changed = true
					}
				}
			}
			return true
		})
		if !changed {
			return
		}
	}
}

func (c *collector) aliasWrites(fn string, body ast.Node) {
	a := &aliasCtx{c: c, fn: fn, tvar: map[*types.Var]string{}, tfield: map[*types.Var]map[string]string{}}
	a.propagate(body)
	direct := func(e ast.Expr) bool {
		// a write that procstate.go already reports (own global / resident field at the root, no local alias)
		if _, _, _, ok := c.fieldOf(stripIndex(e)); ok {
			return true
		}
		if g := c.globalOf(e); g != nil && inModule(g.Pkg()) {
			return true
		}
		return false
	}
	ast.Inspect(body, func(n ast.Node) bool {
		switch x := n.(type) {
		case *ast.CallExpr:
			if sel, ok := x.Fun.(*ast.SelectorExpr); ok {
				if s, ok2 := c.info.Selections[sel]; ok2 && s.Kind() == types.MethodVal && isBigType(c.info.TypeOf(sel.X)) && bigMutators[sel.Sel.Name] {
					if o := a.origin(sel.X); o != "" && !direct(sel.X) {
						c.addAt(fn, "shared-constant-mutation", c.src(sel.X)+"."+sel.Sel.Name+" receiver may alias "+o, x.Pos())
					}
				}
			}
			// dependency helpers that work IN PLACE on their first argument
			if name, path := c.calleeName(x); name != "" && len(x.Args) > 0 && inPlaceFuncs[path+"."+name[strings.Index(name, ".")+1:]] {
				if o := a.origin(x.Args[0]); o != "" {
					c.addAt(fn, "shared-constant-mutation", name+"("+c.src(x.Args[0])+") works in place on an alias of "+o, x.Pos())
				}
			}
			if id, ok := x.Fun.(*ast.Ident); ok {
				if _, isB := c.info.Uses[id].(*types.Builtin); isB && len(x.Args) > 0 && (id.Name == "copy" || id.Name == "append") {
					if o := a.origin(x.Args[0]); o != "" && !direct(x.Args[0]) {
						if _, isSlice := c.info.TypeOf(x.Args[0]).Underlying().(*types.Slice); isSlice {
							c.addAt(fn, "shared-constant-mutation", id.Name+"("+c.src(x.Args[0])+", …) destination may alias "+o, x.Pos())
						}
					}
				}
			}
		case *ast.AssignStmt:
			if x.Tok == token.DEFINE {
				return true
			}
			for _, l := range x.Lhs {
				a.lvalueSink(fn, l, x.Pos(), direct)
			}
		case *ast.IncDecStmt:
			a.lvalueSink(fn, x.X, x.Pos(), direct)
		}
		return true
	})
}

func stripIndex(e ast.Expr) ast.Expr {
	for {
		switch x := e.(type) {
		case *ast.IndexExpr:
			e = x.X
		case *ast.ParenExpr:
			e = x.X
		case *ast.StarExpr:
			e = x.X
		default:
			return e
		}
	}
}

func (a *aliasCtx) lvalueSink(fn string, l ast.Expr, pos token.Pos, direct func(ast.Expr) bool) {
	switch x := l.(type) {
	case *ast.IndexExpr:
		if o := a.origin(x.X); o != "" && !direct(x.X) {
			a.c.addAt(fn, "shared-constant-mutation", a.c.src(x.X)+"[…] = … destination may alias "+o, pos)
		}
	case *ast.StarExpr:
		if o := a.origin(x.X); o != "" && !direct(x.X) {
			a.c.addAt(fn, "shared-constant-mutation", "*"+a.c.src(x.X)+" = … destination may alias "+o, pos)
		}
	case *ast.SelectorExpr:
		// p.f = … through a tainted pointer p (a local alias of a global / resident struct)
		if t := a.c.info.TypeOf(x.X); t != nil {
			if _, isPtr := t.Underlying().(*types.Pointer); isPtr {
				if _, isGlobal := a.globalRoot(x.X); !isGlobal {
					if o := a.origin(x.X); o != "" && !direct(l) && !strings.HasPrefix(o, "result of") {
						a.c.addAt(fn, "shared-constant-mutation", a.c.src(x.X)+"."+x.Sel.Name+" = … through an alias of "+o, pos)
					}
				}
			}
		}
	}
}
