package main

// Reachability refinement (thorough tier): which inventoried sites lie in functions reachable from the roots of
// block processing? Whole-program SSA (golang.org/x/tools/go/ssa) + class-hierarchy call graph (go/callgraph/cha:
// every interface call reaches every implementation in the program, every call of a function value reaches every
// address-taken function of that signature — an OVER-approximation, so "unreachable" is a sound verdict and
// "reachable" may be spurious). Roots are functions of the teleport module:
//
//	BeginBlocker / EndBlocker / InitChainer / BeginBlock / EndBlock / InitGenesis
//	every MsgServer method       (ctx context.Context, *Msg…) (*Msg…Response, error)
//	gov proposal handlers        New…ProposalHandler (and their closures), handle…Proposal
//	EVM hooks                    PostTxProcessing
//	IBC callbacks                OnRecvPacket, OnAcknowledgementPacket, OnTimeoutPacket, OnChan…, SendPacket
//	ante decorators, messages    AnteHandle, ValidateBasic, GetSigners
//
// Package initialisers are not roots: a site in a package-level declaration is reported as "init".

import (
	"go/types"
	"path/filepath"
	"regexp"
	"sort"
	"strings"

	"golang.org/x/tools/go/callgraph"
	"golang.org/x/tools/go/callgraph/cha"
	"golang.org/x/tools/go/callgraph/rta"
	"golang.org/x/tools/go/packages"
	"golang.org/x/tools/go/ssa"
	"golang.org/x/tools/go/ssa/ssautil"
)

var rootNames = map[string]bool{
	"BeginBlocker": true, "EndBlocker": true, "InitChainer": true, "BeginBlock": true, "EndBlock": true, "InitGenesis": true,
	"PostTxProcessing": true, "AnteHandle": true, "ValidateBasic": true, "GetSigners": true,
	"OnRecvPacket": true, "OnAcknowledgementPacket": true, "OnTimeoutPacket": true, "SendPacket": true,
	"OnChanOpenInit": true, "OnChanOpenTry": true, "OnChanOpenAck": true, "OnChanOpenConfirm": true, "OnChanCloseInit": true, "OnChanCloseConfirm": true,
}

var propHandlerRe = regexp.MustCompile(`^(New.*ProposalHandler|handle.*Proposal)$`)

type reachInfo struct {
	Reachable map[string]bool // file \x00 func (inventory naming) of every module function reachable in the CHA graph
	RTA       map[string]bool // the same for rapid type analysis from the same roots + the codec registration functions
	Roots     []string
	Funcs     int // module functions seen by SSA
	Nodes     int // call-graph nodes
}

func ssaFuncName(fn *ssa.Function) string {
	for fn.Parent() != nil {
		fn = fn.Parent()
	}
	obj, ok := fn.Object().(*types.Func)
	if !ok || obj == nil {
		return fn.Name()
	}
	sig := obj.Type().(*types.Signature)
	if sig.Recv() == nil {
		return obj.Name()
	}
	t := sig.Recv().Type()
	star := ""
	if p, ok := t.(*types.Pointer); ok {
		star = "*"
		t = p.Elem()
	}
	name := "?"
	if n, ok := t.(*types.Named); ok {
		name = n.Obj().Name()
	}
	return "(" + star + name + ")." + obj.Name()
}

func isMsgServerMethod(fn *ssa.Function) bool {
	sig := fn.Signature
	if sig.Recv() == nil || sig.Params().Len() != 2 || sig.Results().Len() != 2 {
		return false
	}
	if sig.Params().At(0).Type().String() != "context.Context" {
		return false
	}
	p, ok := sig.Params().At(1).Type().(*types.Pointer)
	if !ok {
		return false
	}
	n, ok := p.Elem().(*types.Named)
	return ok && strings.HasPrefix(n.Obj().Name(), "Msg")
}

func computeReach(pkgs []*packages.Package, abs string) *reachInfo {
	prog, _ := ssautil.AllPackages(pkgs, ssa.InstantiateGenerics)
	prog.Build()
	cg := cha.CallGraph(prog)
	info := &reachInfo{Reachable: map[string]bool{}, RTA: map[string]bool{}, Nodes: len(cg.Nodes)}
	var rtaRoots []*ssa.Function
	relOf := func(fn *ssa.Function) (string, bool) {
		top := fn
		for top.Parent() != nil {
			top = top.Parent()
		}
		pos := top.Pos()
		if !pos.IsValid() {
			if s := top.Syntax(); s != nil {
				pos = s.Pos()
			}
		}
		if !pos.IsValid() {
			return "", false
		}
		name := prog.Fset.Position(pos).Filename
		if r, err := filepath.EvalSymlinks(name); err == nil {
			name = r
		}
		rel, err := filepath.Rel(abs, name)
		if err != nil || strings.HasPrefix(rel, "..") {
			return "", false
		}
		rel = filepath.ToSlash(rel)
		first := strings.SplitN(rel, "/", 2)[0]
		okRoot := false
		for _, r := range roots {
			if r == first {
				okRoot = true
			}
		}
		if !okRoot {
			return "", false
		}
		return rel, true
	}
	var work []*callgraph.Node
	seen := map[*callgraph.Node]bool{}
	rootSet := map[string]bool{}
	for fn, node := range cg.Nodes {
		if fn == nil {
			continue
		}
		rel, ok := relOf(fn)
		if !ok {
			continue
		}
		info.Funcs++
		top := fn
		for top.Parent() != nil {
			top = top.Parent()
		}
		isRoot := false
		switch {
		case strings.HasSuffix(rel, ".pb.go") || strings.HasSuffix(rel, ".pb.gw.go"):
			isRoot = false
		case excluded(rel):
			isRoot = false
		case rootNames[top.Name()]:
			isRoot = true
		case propHandlerRe.MatchString(top.Name()):
			isRoot = true
		case isMsgServerMethod(top):
			isRoot = true
		}
		if strings.HasPrefix(rel, "x/xibc/testing/") {
			isRoot = false // test support (package xibctesting and its mock module)
		}
		// rapid type analysis needs the types the codec can produce to be live: the registration functions convert a
		// value of every message / client state / header type to an interface
		if !isRoot && fn.Parent() == nil && (top.Name() == "RegisterInterfaces" || top.Name() == "RegisterLegacyAminoCodec" || top.Name() == "RegisterCodec") && !strings.HasPrefix(rel, "x/xibc/testing/") {
			rtaRoots = append(rtaRoots, fn)
		}
		if isRoot {
			if fn.Parent() == nil && fn.TypeParams().Len() == 0 {
				rtaRoots = append(rtaRoots, fn)
			}
			rootSet[rel+": "+ssaFuncName(fn)] = true
			if !seen[node] {
				seen[node] = true
				work = append(work, node)
			}
		}
	}
	for len(work) > 0 {
		n := work[len(work)-1]
		work = work[:len(work)-1]
		if rel, ok := relOf(n.Func); ok {
			info.Reachable[rel+"\x00"+ssaFuncName(n.Func)] = true
		}
		for _, e := range n.Out {
			if !seen[e.Callee] {
				seen[e.Callee] = true
				work = append(work, e.Callee)
			}
		}
	}
	if res := rta.Analyze(rtaRoots, false); res != nil {
		for fn := range res.Reachable {
			if rel, ok := relOf(fn); ok {
				info.RTA[rel+"\x00"+ssaFuncName(fn)] = true
			}
		}
	}
	for r := range rootSet {
		info.Roots = append(info.Roots, r)
	}
	sort.Strings(info.Roots)
	return info
}
