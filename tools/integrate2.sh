#!/bin/bash
# integrate2.sh <clone-name> — copy files added OR modified in /tmp/vb/<name>/verif since its merge-base with /verif
# (except evidence/, MANIFEST.json, harness/go.mod, known_findings.json, seeded/)
set -e
N=$1; SRC=/tmp/vb/$N/verif
cd /verif
git fetch -q $SRC HEAD
BASE=$(git merge-base HEAD FETCH_HEAD)
echo "== $N: base $(git rev-parse --short $BASE) their head $(git rev-parse --short FETCH_HEAD)"
git diff --no-renames --name-status $BASE FETCH_HEAD | while read st f; do
  case "$f" in evidence/*|MANIFEST.json|harness/go.mod|known_findings.json|seeded/*) echo "  skip     $f"; continue;; esac
  case "$st" in
    A|M) mkdir -p "$(dirname "$f")"; git show FETCH_HEAD:"$f" > "$f"; echo "  $st copied $f";;
    D) rm -f "$f"; echo "  D removed $f";;
    *) echo "  $st $f (ignored)";;
  esac
done
