#!/bin/bash
# seed_sweep.sh — run every seeded change against the check of its property (sequential: /repo is shared);
# writes seeded/RESULTS.md. Seeds whose patch no longer applies to /repo HEAD are listed as such.
cd /verif
echo "| seed | property | quick check on the seeded tree | replay kind |" > seeded/RESULTS.md
echo "|---|---|---|---|" >> seeded/RESULTS.md
for d in seeded/C*/; do
  S=$(basename $d); C=${S%%-*}
  out=$(tools/try_seed.sh $S $C 2>&1)
  if echo "$out" | grep -q "does not apply"; then res="patch no longer applies to /repo HEAD (superseded by a re-based copy)"; kind="-"
  elif echo "$out" | grep -q "exit 0"; then res="MISSED (check stayed green)"; kind="-"
  elif echo "$out" | grep -q "no-failing-input-found"; then res="VIOLATION"; kind="no-failing-input-found (broken obligation / correspondence only)"
  elif echo "$out" | grep -q "^VIOLATION"; then res="VIOLATION"; kind="concrete failing input (oracle finding, shrunk replay)"
  else res="?"; kind="$(echo "$out" | tail -1)"; fi
  echo "| $S | $C | $res | $kind |" >> seeded/RESULTS.md
  echo "$S: $res / $kind"
done
