#!/bin/bash
# seed_sweep.sh [jobs] — run every seeded change against the check of its property (each in its own scratch
# worktree of /repo HEAD, see try_seed.sh; /repo itself is never touched); writes seeded/RESULTS.md.
# Seeds whose patch no longer applies to /repo HEAD are listed as such.
# SWEEP_ONLY=<egrep pattern on seed ids> restricts the run (results of other seeds from an earlier run are kept).
cd /verif
J=${1:-3}
mkdir -p build/sweep; [ -z "$SWEEP_ONLY" ] && rm -f build/sweep/*.res
one() {
  S=$1; C=${S%%-*}
  out=$(tools/try_seed.sh $S $C 2>&1)
  if [ -f seeded/$S/SUPERSEDED ] && echo "$out" | grep -q "exit 0"; then res="not a violation any more: $(cat seeded/$S/SUPERSEDED)"; kind="-"
  elif echo "$out" | grep -q "does not apply"; then res="patch no longer applies to /repo HEAD (superseded by a re-based copy)"; kind="-"
  elif echo "$out" | grep -q "exit 0" && [ -f seeded/$S/NEIGHBOUR ]; then
    N=$(cat seeded/$S/NEIGHBOUR); out2=$(tools/try_seed.sh $S $N 2>&1)
    if echo "$out2" | grep -q "^VIOLATION"; then res="green on $C; VIOLATION by the check of $N (documented neighbour)"; kind="see DESIGN 11.3"; else res="MISSED (check stayed green, neighbour $N too)"; kind="-"; fi
  elif echo "$out" | grep -q "exit 0"; then res="MISSED (check stayed green)"; kind="-"
  elif echo "$out" | grep -q "^VIOLATION.*replay=[^ ]*-[0-9]*\.json *$"; then res="VIOLATION"; kind="concrete failing input (oracle finding, shrunk replay)"
  elif echo "$out" | grep -q "no-failing-input-found"; then res="VIOLATION"; kind="no-failing-input-found (broken obligation / correspondence only)"
  elif echo "$out" | grep -q "^VIOLATION"; then res="VIOLATION"; kind="concrete failing input (oracle finding, shrunk replay)"
  else res="?"; kind="$(echo "$out" | tail -1)"; fi
  echo "| $S | $C | $res | $kind |" > build/sweep/$S.res
  echo "$S: $res / $kind"
}
export -f one
ls -d seeded/C*/ | xargs -n1 basename | grep -E "${SWEEP_ONLY:-.}" | xargs -P $J -I{} bash -c 'one {}'
{
  echo "| seed | property | quick check on the seeded tree | replay kind |"
  echo "|---|---|---|---|"
  cat $(ls build/sweep/*.res | sort -V)
} > seeded/RESULTS.md
grep -c VIOLATION seeded/RESULTS.md; grep MISSED seeded/RESULTS.md
