#!/bin/bash
# integrate.sh <name>  — copy a builder's NEW files from /tmp/vb/<name>/verif into /verif; list modified shared files
set -e
N=$1; SRC=/tmp/vb/$N/verif
cd /verif
git fetch -q $SRC HEAD 2>/dev/null || git fetch -q $SRC
BASE=$(git merge-base HEAD FETCH_HEAD)
echo "== $N: base $BASE  their head $(git rev-parse --short FETCH_HEAD)"
git diff --name-status $BASE FETCH_HEAD | while read st f; do
  case "$st" in
    A) mkdir -p "$(dirname "$f")"; git show FETCH_HEAD:"$f" > "$f"; echo "  added    $f";;
    M) echo "  MODIFIED $f (not copied)";;
    D) echo "  DELETED  $f (ignored)";;
    *) echo "  $st $f";;
  esac
done
