#!/usr/bin/env python3
import json, subprocess, sys
# addfixed.py <property> <what failed>   (commit = /repo HEAD)
p='/verif/known_findings.json'
d=json.load(open(p))
c=subprocess.check_output(['git','-C','/repo','rev-parse','--short','HEAD']).decode().strip()
d['fixed'].append(f"fixed: property={sys.argv[1]} {c} {sys.argv[2]}")
json.dump(d,open(p,'w'),indent=1)
