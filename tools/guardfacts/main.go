// guardfacts — translator for "guard dominance" facts (DESIGN.md section 4).
//
// For each listed handler of the real source it extracts, for every state-changing call (an "effect"),
// the set of early-return guards that dominate it: the `if … { …; return … }` statements that precede it on
// the path from the function entry (top level and enclosing blocks), and the conditions of the enclosing ifs.
// The result is compared with an expectation file: for every (function, effect) the guards the Lean proofs rely
// on must be AMONG the extracted ones (subset relation) — a harmless re-ordering or an added check keeps it,
// a removed, weakened-by-deletion or bypassed guard breaks it even if the differential generator misses it.
package main

import (
	"bytes"
	"encoding/json"
	"flag"
	"fmt"
	"go/ast"
	"go/parser"
	"go/printer"
	"go/token"
	"os"
	"path/filepath"
	"regexp"
	"sort"
	"strings"
)

type Effect struct {
	Call   string   `json:"call"`   // callee as written, e.g. k.SetPacketReceipt
	Guards []string `json:"guards"` // normalised source of dominating guards, in order
	Pos    int      `json:"ordinal"`
}

type FuncFacts struct {
	File    string   `json:"file"`
	Func    string   `json:"func"`
	Effects []Effect `json:"effects"`
}

type Expect struct {
	Props    []string `json:"props"` // properties whose proofs rely on these guards
	File     string `json:"file"`
	Func     string `json:"func"` // Recv.Name or Name
	Requires []struct {
		Effect string   `json:"effect"` // regexp on callee
		Nth    int      `json:"nth"`    // 0 = every occurrence, k = k-th occurrence
		Guards []string `json:"guards"` // each: regexp that must match at least one dominating guard
		// if set: EVERY guard / enclosing condition that dominates the effect must match one of these regexps — the effect
		// may not come to depend on anything else (e.g. a hook call that becomes conditional on a method name)
		Only []string `json:"only"`
		Why  string   `json:"why"`
	} `json:"requires"`
	// effects that must exist at all (so that deleting the effect is noticed)
	MustHave []string `json:"must_have"`
}

var effectRe = regexp.MustCompile(`(^|\.)(Set[A-Z]\w*|set[A-Z]\w*|delete[A-Z]\w*|Delete[A-Z]\w*|CallPacket|CallEVM\w*|WriteAcknowledgement|write|Mint\w*|Burn\w*|Send\w*Coins\w*|SendPacket|RecvPacket|AcknowledgePacket|UpdateClient|CreateClient|UpgradeClient|ToggleClient|RegisterRelayers|Initialize|UpgradeState|CheckHeaderAndUpdateState|ConvertCoin\w*|Execute\w*|Route|handler|Validate|ValidateBasic|PostTxProcessing)$`)

func src(fset *token.FileSet, n ast.Node) string {
	var b bytes.Buffer
	printer.Fprint(&b, fset, n)
	s := strings.Join(strings.Fields(b.String()), " ")
	return s
}

// endsInReturn: block's last statement is a return (or panic) — i.e. the if is an early-exit guard
func endsInExit(b *ast.BlockStmt) bool {
	if b == nil || len(b.List) == 0 {
		return false
	}
	switch s := b.List[len(b.List)-1].(type) {
	case *ast.ReturnStmt:
		return true
	case *ast.ExprStmt:
		if c, ok := s.X.(*ast.CallExpr); ok {
			if id, ok := c.Fun.(*ast.Ident); ok && id.Name == "panic" {
				return true
			}
		}
	case *ast.BranchStmt:
		return s.Tok == token.CONTINUE || s.Tok == token.BREAK
	}
	return false
}

type walker struct {
	fset    *token.FileSet
	effects []Effect
}

func guardText(fset *token.FileSet, s *ast.IfStmt) string {
	t := ""
	if s.Init != nil {
		t = src(fset, s.Init) + "; "
	}
	return t + src(fset, s.Cond)
}

// collect effects in an expression/statement (calls whose callee matches effectRe)
func (w *walker) callsIn(n ast.Node, guards []string) {
	ast.Inspect(n, func(x ast.Node) bool {
		if _, ok := x.(*ast.FuncLit); ok {
			return false
		}
		if c, ok := x.(*ast.CallExpr); ok {
			name := src(w.fset, c.Fun)
			if effectRe.MatchString(name) {
				w.effects = append(w.effects, Effect{Call: name, Guards: append([]string{}, guards...), Pos: len(w.effects)})
			}
		}
		return true
	})
}

// preceding assignments whose value feeds a guard are attached to the guard text through the init clause only;
// additionally a guard `if !found {return}` gets the preceding statement's text appended when it defines the tested identifier.
func (w *walker) block(list []ast.Stmt, guards []string) []string {
	g := append([]string{}, guards...)
	var prev ast.Stmt
	for _, st := range list {
		switch s := st.(type) {
		case *ast.IfStmt:
			w.ifStmt(s, &g, prev)
		case *ast.BlockStmt:
			g = w.block(s.List, g)
		case *ast.ForStmt:
			if s.Cond != nil {
				w.callsIn(s.Cond, g)
			}
			w.block(s.Body.List, append(g, "in-loop"))
		case *ast.RangeStmt:
			w.callsIn(s.X, g)
			w.block(s.Body.List, append(g, "in-loop"))
		case *ast.SwitchStmt, *ast.TypeSwitchStmt, *ast.SelectStmt:
			ast.Inspect(s, func(x ast.Node) bool {
				if cc, ok := x.(*ast.CaseClause); ok {
					lbl := "case " + func() string {
						var p []string
						for _, e := range cc.List {
							p = append(p, src(w.fset, e))
						}
						return strings.Join(p, ",")
					}()
					w.block(cc.Body, append(g, lbl))
					return false
				}
				return true
			})
		case *ast.DeferStmt:
			// deferred calls are not effects of the straight-line path
		default:
			w.callsIn(st, g)
		}
		prev = st
	}
	return g
}

func (w *walker) ifStmt(s *ast.IfStmt, g *[]string, prev ast.Stmt) {
	if s.Init != nil {
		w.callsIn(s.Init, *g)
	}
	w.callsIn(s.Cond, *g)
	cond := guardText(w.fset, s)
	if prev != nil {
		// attach the defining statement for conditions over plain identifiers (e.g. `_, found := …; if !found`)
		if as, ok := prev.(*ast.AssignStmt); ok {
			ids := map[string]bool{}
			ast.Inspect(s.Cond, func(x ast.Node) bool {
				if id, ok := x.(*ast.Ident); ok {
					ids[id.Name] = true
				}
				return true
			})
			for _, l := range as.Lhs {
				if id, ok := l.(*ast.Ident); ok && ids[id.Name] && id.Name != "_" {
					cond = src(w.fset, as) + "; " + cond
					break
				}
			}
		}
	}
	// effects inside the then-branch are guarded by cond
	w.block(s.Body.List, append(*g, "then("+cond+")"))
	exits := endsInExit(s.Body)
	if s.Else != nil {
		switch e := s.Else.(type) {
		case *ast.BlockStmt:
			w.block(e.List, append(*g, "else("+cond+")"))
			if exits && endsInExit(e) {
				*g = append(*g, "unreachable-after("+cond+")")
			}
		case *ast.IfStmt:
			g2 := append(append([]string{}, *g...), "else("+cond+")")
			w.ifStmt(e, &g2, nil)
		}
	}
	if exits {
		*g = append(*g, "passed-not("+cond+")")
	}
}

func funcName(fd *ast.FuncDecl) string {
	if fd.Recv != nil && len(fd.Recv.List) > 0 {
		t := fd.Recv.List[0].Type
		if st, ok := t.(*ast.StarExpr); ok {
			t = st.X
		}
		if id, ok := t.(*ast.Ident); ok {
			return id.Name + "." + fd.Name.Name
		}
	}
	return fd.Name.Name
}

func main() {
	repo := flag.String("repo", "/repo", "repository root")
	expectF := flag.String("expect", "", "expectation json")
	outF := flag.String("json", "", "write extracted facts here")
	only := flag.String("prop", "", "only expectations tagged for this property (file name prefix)")
	flag.Parse()
	var expects []Expect
	b, err := os.ReadFile(*expectF)
	if err != nil {
		fmt.Println("cannot read expectations:", err)
		os.Exit(2)
	}
	if err := json.Unmarshal(b, &expects); err != nil {
		fmt.Println("bad expectations:", err)
		os.Exit(2)
	}
	fset := token.NewFileSet()
	parsed := map[string]*ast.File{}
	var all []FuncFacts
	bad := 0
	if *only != "" {
		var sel []Expect
		for _, ex := range expects {
			for _, p := range ex.Props {
				if p == *only {
					sel = append(sel, ex)
					break
				}
			}
		}
		expects = sel
	}
	for _, ex := range expects {
		f, ok := parsed[ex.File]
		if !ok {
			f, err = parser.ParseFile(fset, filepath.Join(*repo, ex.File), nil, parser.ParseComments)
			if err != nil {
				fmt.Printf("BROKEN %s: cannot parse: %v\n", ex.File, err)
				bad++
				continue
			}
			parsed[ex.File] = f
		}
		var fd *ast.FuncDecl
		for _, d := range f.Decls {
			if x, ok := d.(*ast.FuncDecl); ok && funcName(x) == ex.Func && x.Body != nil {
				fd = x
			}
		}
		if fd == nil {
			fmt.Printf("BROKEN %s %s: function not found (renamed or removed: the handler the proofs are about is gone)\n", ex.File, ex.Func)
			bad++
			continue
		}
		w := &walker{fset: fset}
		w.block(fd.Body.List, nil)
		ff := FuncFacts{File: ex.File, Func: ex.Func, Effects: w.effects}
		all = append(all, ff)
		for _, mh := range ex.MustHave {
			re := regexp.MustCompile(mh)
			found := false
			for _, e := range w.effects {
				if re.MatchString(e.Call) {
					found = true
				}
			}
			if !found {
				fmt.Printf("BROKEN %s %s: effect /%s/ no longer present\n", ex.File, ex.Func, mh)
				bad++
			}
		}
		for _, rq := range ex.Requires {
			re := regexp.MustCompile(rq.Effect)
			k := 0
			matched := false
			for _, e := range w.effects {
				if !re.MatchString(e.Call) {
					continue
				}
				k++
				if rq.Nth != 0 && rq.Nth != k {
					continue
				}
				matched = true
				if len(rq.Only) > 0 {
					for _, g := range e.Guards {
						ok := false
						for _, opat := range rq.Only {
							if regexp.MustCompile(opat).MatchString(g) {
								ok = true
							}
						}
						if !ok {
							fmt.Printf("BROKEN %s %s: effect %s (#%d) now also depends on %q, which is none of the conditions it may depend on (%s)\n",
								ex.File, ex.Func, e.Call, k, g, rq.Why)
							bad++
						}
					}
				}
				for _, gpat := range rq.Guards {
					gre := regexp.MustCompile(gpat)
					ok := false
					for _, g := range e.Guards {
						if strings.HasPrefix(g, "passed-not(") || strings.HasPrefix(g, "then(") || strings.HasPrefix(g, "else(") {
							if gre.MatchString(g) {
								ok = true
							}
						}
					}
					if !ok {
						fmt.Printf("BROKEN %s %s: effect %s (#%d) is no longer dominated by a guard matching /%s/ (%s); dominating guards now: %v\n",
							ex.File, ex.Func, e.Call, k, gpat, rq.Why, e.Guards)
						bad++
					}
				}
			}
			if !matched {
				fmt.Printf("BROKEN %s %s: no effect matching /%s/ (nth=%d) found\n", ex.File, ex.Func, rq.Effect, rq.Nth)
				bad++
			}
		}
	}
	sort.Slice(all, func(i, j int) bool { return all[i].File+all[i].Func < all[j].File+all[j].Func })
	if *outF != "" {
		jb, _ := json.MarshalIndent(all, "", " ")
		_ = os.WriteFile(*outF, jb, 0o644)
	}
	n := 0
	for _, ex := range expects {
		n += len(ex.Requires) + len(ex.MustHave)
	}
	fmt.Printf("guardfacts: %d functions, %d expectations, %d broken\n", len(all), n, bad)
	if bad > 0 {
		os.Exit(1)
	}
}
