module guardfacts

go 1.17
