module panicsites

go 1.17
