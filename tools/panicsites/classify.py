#!/usr/bin/env python3
"""One-off helper that produced props/sites.C15.json from a skeleton written by `panicsites -init`.
Rules are (file-suffix, function, kind, expression-substring) -> (discharge, by).  First match wins.
Run:  go run . -repo /repo -init /tmp/skel.json && python3 classify.py /tmp/skel.json ../../props/sites.C15.json
A site no rule matches stays TODO (= unmatched = finding), which is the point."""
import json, sys
L = "lemma"; G = "locally-guarded"; U = "unreachable-from-roots"; S = "sdk-invariant"; N = "not-partial"; V = "validator-only"
CODEC = "the value was decoded from the wire / the store by the same registered codec (or is a plain proto message), so re-encoding / decoding cannot fail"
RULES = [
 # --- cosmos-sdk callers of the bank adapter (kind callee-error-panics-in-caller)
 ("cosmos-sdk/x/gov/keeper/deposit.go", "DeleteDeposits", "callee-error-panics-in-caller", "error guards: NONE", L, "TM.GovCycle.adapter_burn_no_error_on_valid_or_empty + gov_endblock_no_panic: the adapter adds no check of its own; every recorded deposit is valid-or-EMPTY (msgCoinsOk_ok, upsert_spec) and covered by the gov module account (Inv)"),
 ("cosmos-sdk/x/staking/keeper/slash.go", "", "callee-error-panics-in-caller", "error guards: NONE", L, "TM.GovCycle.staking_burn_no_panic / slash_no_panic: burn*Tokens skip non-positive amounts, a single positive bond-denom coin is valid, the adapter adds no check; pool coverage is the staking module's own invariant (sdk-invariant)"),
 ("types/events.go", "EmitTypedEvent", "index", "event.Attributes[", G, "i, j are supplied by sort.SliceStable and range over len(event.Attributes)"),
 # --- app life cycle (InitChainer, upgrade handlers)
 ("app/app.go", "Teleport.SetEVMCode", "type-assert", "## operand from: NewAccountWithAddress", S, "constructed in place: AccountKeeper.NewAccountWithAddress returns a fresh copy of the configured account prototype (ethermint.ProtoAccount = *EthAccount) and the account already stored at the address is not consulted (it is overwritten) — TM.NoPanic.startup_total_every_account_kind; dynamic: the life-cycle probe (every account kind at the five system-contract addresses). An operand from a look-up (GetAccount …) would be kind lookup-type-assert = a new site"),
 ("app/app.go", "Teleport.InitChainer", "panic", "panic(err)", S, "json.Unmarshal of the AppStateBytes the node itself produced from the validated genesis file; adapter manager InitGenesis deploys fixed system contracts"),
 ("app/app.go", "Teleport.GetKey", "index", "app.keys[storeKey]", N, "map index"),
 ("app/upgrades.go", "Teleport.registerUpgradeHandlers", "panic", "failed to read upgrade info from disk", U, "executes in NewTeleport (process start), not in InitChain / BeginBlock / EndBlock; listed because the function is the root that contains the v0.2 handler closure"),
 ("x/xibc/genesis.go", "ResetStates", "panic", "storeKey must be xibc key", G, "guard of the function's own precondition; the only caller (v0.2 upgrade handler) passes app.GetKey(xibchost.StoreKey)"),
 ("types/hashing.go", "rlpHash", "lookup-type-assert", "hasherPool.Get()", S, "hasherPool.New always returns sha3.NewLegacyKeccak256(), a crypto.KeccakState (a sync.Pool only returns what New or Put supplied, and Put is only called with that value)"),
 # --- bsc
 ("bsc/types/client_state.go", "ClientState.Initialize", "div", "% m.Epoch", L, "TM.NoPanic.bsc_init_guarded (ClientState.Validate rejects Epoch = 0 — fixes/C15-bsc-clientstate-validate)"),
 ("bsc/types/client_state.go", "ClientState.UpgradeState", "div", "% m.Epoch", L, "TM.NoPanic.bsc_upgrade_guarded"),
 ("bsc/types/header.go", "encodeSigHeader", "slice", "header.Extra[:len(header.Extra)-65]", L, "TM.NoPanic.bscSeal_guarded (the only caller path ecrecover → sealHash checks len(Extra) >= extraSeal first; modelled in bscSeal)"),
 ("bsc/types/header.go", "encodeSigHeader", "panic", "can't encode", L, "TM.NoPanic.bsc_init_guarded / bsc_upgrade_guarded (rlp only refuses the negative chain id; Validate rejects ChainId > MaxInt64)"),
 ("bsc/types/header.go", "ecrecover", "slice", "header.Extra[len(header.Extra)-extraSeal:]", G, "len(header.Extra) < extraSeal returns an error just above"),
 ("bsc/types/header.go", "ecrecover", "slice", "pubkey[1:]", S, "crypto.Ecrecover returns a 65-byte public key when err == nil; Keccak256 returns 32 bytes"),
 ("bsc/types/header.go", "sealHash", "slice", "hash[:0]", N, "constant slice of a [32]byte array"),
 ("bsc/types/bsc.go", "ParseValidators", "slice", "extra[extraVanity : len(extra)-extraSeal]", L, "TM.NoPanic.bsc_init_guarded / bsc_upgrade_guarded (Header.ValidateBasic: len(Extra) >= 97)"),
 ("bsc/types/bsc.go", "ParseValidators", "slice", "validatorBytes[", G, "i < n = len(validatorBytes)/addressLength"),
 ("bsc/types/bsc.go", "ParseValidators", "index", "result[i]", G, "result = make([][]byte, n), i < n"),
 ("bsc/types/bsc.go", "Bloom.SetBytes", "panic", "", V, "reached only through ToBscHeader from Header.ValidateBasic (number > 0) on the no-recover roots: modelled as bscHeaderValidate = panic, i.e. the input is not accepted; Initialize / UpgradeState never convert the bloom"),
 ("bsc/types/bsc.go", "BlockNonce.SetBytes", "panic", "", V, "as Bloom.SetBytes"),
 ("bsc/types/bsc.go", "Bloom.SetBytes", "slice", "", G, "len(b) < len(d) panics just above"),
 ("bsc/types/bsc.go", "BlockNonce.SetBytes", "slice", "", G, "len(b) < len(d) panics just above"),
 ("types/hashing.go", "rlpHash", "type-assert", "hasherPool.Get()", S, "hasherPool.New always returns sha3.NewLegacyKeccak256(), a crypto.KeccakState"),
 ("bsc/types/store.go", "DeleteAllSigner", "index", "keys[1]", S, "keys under the prefix recentSingers are written only by keyRecentSinger as recentSingers/<height>; (a genesis ClientsMetadata entry could plant another key — recorded weakness in docs/C15.md)"),
 ("bsc/types/store.go", "SetPendingValidators", "must-call", "", S, CODEC),
 ("bsc/types/store.go", "GetHeightFromIterationKey", "slice", "", S, "the only caller IterateConsensusStateAscending passes keys of exactly len(prefix)+1+16 bytes"),
 ("eth/types/store.go", "GetHeightFromIterationKey", "slice", "", U, "eth IterateConsensusStateAscending is used by the update path only (name collision with the bsc function)"),
 ("tendermint/types/store.go", "GetHeightFromIterationKey", "slice", "", U, "tendermint Initialize / UpgradeState do not iterate (name collision with the bsc function)"),
 ("tendermint/types/store.go", "bigEndianHeightBytes", "slice", "heightBytes[8:]", N, "heightBytes = make([]byte, 16)"),
 # --- xibc client keeper / types
 ("core/client/genesis.go", "InitGenesis", "panic", "", L, "TM.NoPanic.xgenesis_no_panic (GenesisState.Validate checks the cached value types)"),
 ("core/client/genesis.go", "InitGenesis", "nil-method", "", L, "TM.NoPanic.xgenesis_no_panic (a nil Any makes GenesisState.Validate itself fail)"),
 ("core/client/types/genesis.go", "GenesisState.Validate", "nil-method", "", V, "a nil Any panics inside the validator: the genesis is not accepted (modelled: xgenClients / xgenConsStates = panic)"),
 ("core/client/types/codec.go", "", "nil-method", "any.GetCachedValue()", G, "any == nil returns an error just above"),
 ("core/client/keeper/encoding.go", "", "must-call", "", S, CODEC),
 ("core/client/keeper/keeper.go", "", "must-call", "", S, CODEC),
 ("core/client/keeper/relayer.go", "", "must-call", "", S, CODEC),
 ("core/client/types/encoding.go", "", "panic", "", S, CODEC),
 ("core/client/types/height.go", "Height.Compare", "panic", "", S, "clienttypes.Height is the only exported.Height implementation"),
 ("core/client/types/height.go", "ParseHeight", "index", "", G, "len(splitStr) != 2 returns an error just above"),
 ("core/client/types/height.go", "ParseChainID", "", "", G, "IsRevisionFormat (regexp ^.*[^-]-{1}[1-9][0-9]*$) is checked first"),
 ("core/packet/genesis.go", "InitGenesis", "panic", "", S, "the module account is in the app's maccPerms; AccountKeeper.GetModuleAccount creates it on first use"),
 # --- aggregate
 ("x/aggregate/genesis.go", "InitGenesis", "panic", "", S, "the module account is in the app's maccPerms; AccountKeeper.GetModuleAccount creates it on first use"),
 ("aggregate/keeper/evm.go", "Keeper.CallEVMWithData", "index", "txLogAttrs[i]", G, "txLogAttrs = make(…, len(res.Logs)), i ranges over res.Logs"),
 ("aggregate/keeper/proposals.go", "Keeper.DeployERC20Contract", "index", "coinMetadata.DenomUnits[0]", L, "TM.NoPanic.registerCoin_no_panic (bank Metadata.Validate ⇒ a display unit exists: metaValidate_units)"),
 ("aggregate/keeper/proposals.go", "Keeper.DeployERC20Contract", "slice", "", G, "data = make([]byte, len(Bin)+len(ctorArgs))"),
 ("aggregate/keeper/proposals.go", "Keeper.UpdateTokenPairERC20", "index", "pair.Denoms[0]", L, "TM.NoPanic.updatePair_no_panic with the store invariant AValid (agenesis_no_panic, registerCoin_valid, addCoin_valid, registerERC20_valid, toggleRelay_valid, updatePair_valid)"),
 ("aggregate/keeper/token_pairs.go", "", "must-call", "", S, CODEC),
 ("aggregate/proposal_handler.go", "handleEnableTimeBasedSupplyLimitProposal", "unchecked-ok", "## same parser checked in: EnableTimeBasedSupplyLimitProposal.ValidateBasic", L, "TM.NoPanic.supply_limit_parse_agree (∀ strings: ValidateBasic accepts ⇒ the handler's re-parse with the same parser succeeds) ⇒ enableLimit_no_panic; guard fact: the identical call new(big.Int).SetString(_.Field, 10) is flag-checked in ValidateBasic"),
 # (ccb0d33: GenesisState.Validate checks len(b.Denoms) == 0 first and no longer indexes Denoms[0]: no site left there)
 ("aggregate/types/proposal.go", "validateIBC", "index", "denomSplit[0]", S, "strings.SplitN(s, sep, 2) returns at least one element"),
 ("aggregate/types/proposal.go", "ValidateAggregateDenom", "index", "", G, "len(denomSplit) != 2 is tested first in the same condition / just above"),
 ("aggregate/types/token_pair.go", "TokenPair.GetID", "index", "tp.Denoms[0]", L, "store invariant AValid: TM.NoPanic.toggleRelay_no_panic, addCoin_no_panic, registerCoin_no_panic, registerERC20_no_panic, updatePair_no_panic, agenesis_no_panic"),
 ("aggregate/types/utils.go", "EqualMetadata", "index", "", G, "len(a.DenomUnits) != len(b.DenomUnits) returns an error before the loop"),
 # --- rvesting
 ("rvesting/keeper/genesis.go", "Keeper.InitGenesis", "panic", "panic(err)", L, "TM.NoPanic.rvgenesis_no_panic (bech32 checked by ValidateGenesis; the transfer needs a funded From account — hypothesis, see docs/C15.md)"),
 ("rvesting/module/abci.go", "BeginBlocker", "panic", "panic(err)", L, "TM.Vesting.no_panic (Proofs/C20.lean), restated as TM.NoPanic.beginBlocker_no_panic"),
]
def main():
    skel, out = sys.argv[1], sys.argv[2]
    sites = json.load(open(skel))["sites"]
    todo = 0
    for s in sites:
        s["discharge"], s["by"] = "TODO", ""
        for (f, fn, kind, sub, d, by) in RULES:
            if s["file"].endswith(f) and (fn == "" or s["func"] == fn) and (kind == "" or s["kind"] == kind) and sub in s["expr"]:
                s["discharge"], s["by"] = d, by
                break
        if s["discharge"] == "TODO":
            todo += 1
            print("TODO", s["file"], s["func"], s["kind"], s["expr"])
    doc = {"_comment": "C15 panic-site expectations: every panic-capable construct found by tools/panicsites must match one entry "
           "(file + func + kind + expr; never the line). discharge: lemma (named Lean theorem guards it) | locally-guarded | validator-only "
           "(panics only inside a stateless validator = input rejected) | sdk-invariant | not-partial | unreachable-from-roots.",
           "sites": sites}
    json.dump(doc, open(out, "w"), indent=1)
    print(len(sites), "sites,", todo, "TODO")
main()
