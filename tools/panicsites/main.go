// panicsites — C15 translator part: inventory of every panic-capable construct in the teleport-module
// functions reachable (by an over-approximating name-based call graph) from the entry points that run
// WITHOUT panic recovery: the xibc client and aggregate proposal handlers (as invoked by gov.EndBlocker),
// InitGenesis of xibc / aggregate / rvesting, rvesting BeginBlocker — and from the stateless validators
// that guard them (ValidateBasic / Validate / ValidateGenesis).
//
// Kinds:  panic (explicit panic(...)), must-call (call of a Must* function), div (integer / or % with a
// non-constant divisor), index (x[i] on a non-map), slice (x[a:b]), type-assert (x.(T) without ", ok"),
// nil-method (method call on the result of a function that can return nil), unchecked-ok (", _ :=" discarding
// the ok / error of SetString-like calls whose value is nil on failure).
//
// Every site must be matched — by file + function + kind + normalised expression, NOT by line — by an entry of
// the expectation file (props/sites.C15.json) naming its discharge.  A site without entry is reported in
// "unmatched" (exit code stays 0; the harness turns each into a finding).  Plain go/parser + go/ast.
package main

import (
	"bytes"
	"encoding/json"
	"flag"
	"fmt"
	"go/ast"
	"go/parser"
	"go/printer"
	"go/token"
	"os"
	"path/filepath"
	"sort"
	"strings"
)

// packages (directories) that contain code reachable from the roots
var dirs = []string{
	"app", // InitChainer / BeginBlocker / EndBlocker / upgrade handlers / SetEVMCode
	"types", // teletypes.EmitTypedEvent (called by the proposal handlers)
	"x/xibc", "x/xibc/types", "x/xibc/core/host",
	"x/xibc/core/client", "x/xibc/core/client/keeper", "x/xibc/core/client/types",
	"x/xibc/core/packet", "x/xibc/core/packet/types",
	"x/xibc/clients/light-clients/bsc/types", "x/xibc/clients/light-clients/eth/types",
	"x/xibc/clients/light-clients/tendermint/types", "x/xibc/clients/tss-client/types",
	"x/aggregate", "x/aggregate/keeper", "x/aggregate/types",
	"x/rvesting/keeper", "x/rvesting/module", "x/rvesting/types",
}

// entry points: <dir>:<func> or <dir>:<Recv>.<method>
var roots = []string{
	"app:Teleport.InitChainer", "app:Teleport.BeginBlocker", "app:Teleport.EndBlocker", "app:Teleport.registerUpgradeHandlers",
	"x/xibc/core/client:NewClientProposalHandler", "x/xibc/core/client:handleCreateClientProposal",
	"x/xibc/core/client:handleUpgradeClientProposal", "x/xibc/core/client:handleToggleClientProposal",
	"x/xibc/core/client:handleRegisterRelayerProposal",
	"x/xibc/core/client/types:CreateClientProposal.ValidateBasic", "x/xibc/core/client/types:UpgradeClientProposal.ValidateBasic",
	"x/xibc/core/client/types:ToggleClientProposal.ValidateBasic", "x/xibc/core/client/types:RegisterRelayerProposal.ValidateBasic",
	"x/xibc:InitGenesis", "x/xibc/types:GenesisState.Validate",
	"x/aggregate:NewAggregateProposalHandler", "x/aggregate:InitGenesis", "x/aggregate/types:GenesisState.Validate",
	"x/aggregate/types:RegisterCoinProposal.ValidateBasic", "x/aggregate/types:AddCoinProposal.ValidateBasic",
	"x/aggregate/types:RegisterERC20Proposal.ValidateBasic", "x/aggregate/types:ToggleTokenRelayProposal.ValidateBasic",
	"x/aggregate/types:UpdateTokenPairERC20Proposal.ValidateBasic", "x/aggregate/types:RegisterERC20TraceProposal.ValidateBasic",
	"x/aggregate/types:EnableTimeBasedSupplyLimitProposal.ValidateBasic", "x/aggregate/types:DisableTimeBasedSupplyLimitProposal.ValidateBasic",
	"x/rvesting/keeper:Keeper.InitGenesis", "x/rvesting/types:ValidateGenesis", "x/rvesting/module:BeginBlocker",
	"x/rvesting/types:Params.ParamSetPairs", "x/aggregate/types:Params.ParamSetPairs",
}

// interface methods the roots call dynamically: only these method names are followed into the client packages
// (Initialize / UpgradeState / Validate / ValidateBasic / ClientType / GetLatestHeight … of the four client types)
var dynamic = map[string]bool{"Initialize": true, "UpgradeState": true, "Validate": true, "ValidateBasic": true,
	"ClientType": true, "GetLatestHeight": true, "GetHeight": true}

// names never followed (tx-only / query-only entry points that share a name with reachable code)
var stop = map[string]bool{"CheckHeaderAndUpdateState": true, "UpdateClient": true, "VerifyPacketCommitment": true,
	"VerifyPacketAcknowledgement": true, "CheckMsg": true, "Status": true, "ExportMetadata": true, "ExportGenesis": true,
	"ABIDecode": true, "ABIPack": true}

// files never scanned: the ethash proof-of-work verification of the eth client is entered only from
// CheckHeaderAndUpdateState (MsgUpdateClient, i.e. inside the transaction runner's recover); the name-based call
// graph would otherwise pull it in through common method names
var skipFiles = map[string]bool{
	"x/xibc/clients/light-clients/eth/types/algorithm.go": true,
	"x/xibc/clients/light-clients/eth/types/ethash.go":    true,
	"x/xibc/clients/light-clients/eth/types/sealer.go":    true,
}

// string parsers whose value is nil / zero when the string is malformed: `x, _ := parse(s)` (flag or error discarded) is
// the kind `unchecked-ok`. Such a site is only safe when the SAME parser, applied to the same field, is checked by the
// stateless validator (guard fact): the expression text of the site therefore carries
// "## same parser checked in: <Validate* functions>" (or NONE), so that relaxing the validator's parser — e.g. base 10 to
// base 0 — changes the text, un-matches the expectation and is reported.
var parseFuncs = map[string]bool{"SetString": true, "NewIntFromString": true, "NewDecFromStr": true, "NewUintFromString": true,
	"ParseUint": true, "ParseInt": true, "Atoi": true, "ParseFloat": true, "ParseBool": true,
	"AccAddressFromBech32": true, "ValAddressFromBech32": true, "ParseCoinNormalized": true, "ParseCoinsNormalized": true,
	"DecodeString": true, "ParseHeight": true}

// methods whose RECEIVER may be a nil pointer taken from decoded data (*codectypes.Any fields)
var nilRecv = map[string]bool{"GetCachedValue": true}

// external functions whose result can be nil
var nilExternal = map[string]bool{"GetCachedValue": true, "GetModuleAccount": true, "SetString": true, "GetPrefix": true}

type fn struct {
	dir, file, name string // name = Func or Recv.Method
	decl            *ast.FuncDecl
	canNil          bool
}

type Site struct {
	File string `json:"file"`
	Func string `json:"func"`
	Line int    `json:"line"`
	Kind string `json:"kind"`
	Expr string `json:"expr"`
	// filled from the expectation file
	Discharge string `json:"discharge,omitempty"`
	By        string `json:"by,omitempty"`
}

type Expect struct {
	File      string `json:"file"`
	Func      string `json:"func"`
	Kind      string `json:"kind"`
	Expr      string `json:"expr"`
	Discharge string `json:"discharge"` // lemma | locally-guarded | unreachable-from-roots | sdk-invariant | not-partial
	By        string `json:"by"`        // theorem name or reason
}

var fset = token.NewFileSet()

func text(n ast.Node) string {
	var b bytes.Buffer
	_ = printer.Fprint(&b, fset, n)
	s := strings.Join(strings.Fields(b.String()), " ")
	if len(s) > 140 {
		s = s[:140]
	}
	return s
}

func recvName(d *ast.FuncDecl) string {
	if d.Recv == nil || len(d.Recv.List) == 0 {
		return ""
	}
	t := d.Recv.List[0].Type
	if s, ok := t.(*ast.StarExpr); ok {
		t = s.X
	}
	if id, ok := t.(*ast.Ident); ok {
		return id.Name
	}
	return ""
}

// parser signature: callee text + arguments, a field argument `x.Field` rendered as `_.Field`
func parseSig(c *ast.CallExpr) string {
	var args []string
	for _, a := range c.Args {
		if sel, ok := a.(*ast.SelectorExpr); ok {
			if _, ok := sel.X.(*ast.Ident); ok {
				args = append(args, "_."+sel.Sel.Name)
				continue
			}
		}
		args = append(args, text(a))
	}
	return text(c.Fun) + "(" + strings.Join(args, ", ") + ")"
}

// checkedParsers: parser signature -> Validate* functions in which `v, ok := parse(…)` keeps the flag / error
var checkedParsers = map[string][]string{}

func collectChecked(f *fn) {
	if !strings.HasPrefix(f.decl.Name.Name, "Validate") {
		return
	}
	ast.Inspect(f.decl.Body, func(n ast.Node) bool {
		as, ok := n.(*ast.AssignStmt)
		if !ok || len(as.Lhs) != 2 || len(as.Rhs) != 1 {
			return true
		}
		c, ok := as.Rhs[0].(*ast.CallExpr)
		if !ok || !parseFuncs[calleeName(c)] {
			return true
		}
		if id, ok := as.Lhs[1].(*ast.Ident); ok && id.Name == "_" {
			return true
		}
		sig := parseSig(c)
		for _, g := range checkedParsers[sig] {
			if g == f.name {
				return true
			}
		}
		checkedParsers[sig] = append(checkedParsers[sig], f.name)
		return true
	})
}

func calleeName(c *ast.CallExpr) string {
	switch f := c.Fun.(type) {
	case *ast.Ident:
		return f.Name
	case *ast.SelectorExpr:
		return f.Sel.Name
	}
	return ""
}

func main() {
	repo := flag.String("repo", "/repo", "source tree")
	expectF := flag.String("expect", "", "expectation file (props/sites.C15.json)")
	out := flag.String("out", "", "report file")
	initF := flag.String("init", "", "write an expectation skeleton with discharge TODO for unmatched sites")
	flag.Parse()

	var fns []*fn
	byName := map[string][]*fn{} // bare name -> functions
	consts := map[string]bool{}
	for _, d := range dirs {
		files, _ := filepath.Glob(filepath.Join(*repo, d, "*.go"))
		sort.Strings(files)
		for _, f := range files {
			base := filepath.Base(f)
			if strings.HasSuffix(base, "_test.go") || strings.HasSuffix(base, ".pb.go") || strings.HasSuffix(base, ".pb.gw.go") {
				continue
			}
			rel, _ := filepath.Rel(*repo, f)
			if skipFiles[rel] {
				continue
			}
			af, err := parser.ParseFile(fset, f, nil, 0)
			if err != nil {
				fmt.Fprintln(os.Stderr, "parse error:", err)
				os.Exit(2)
			}
			for _, decl := range af.Decls {
				switch x := decl.(type) {
				case *ast.GenDecl:
					if x.Tok == token.CONST {
						for _, sp := range x.Specs {
							for _, n := range sp.(*ast.ValueSpec).Names {
								consts[n.Name] = true
							}
						}
					}
				case *ast.FuncDecl:
					if x.Body == nil {
						continue
					}
					name := x.Name.Name
					if r := recvName(x); r != "" {
						name = r + "." + name
					}
					fn := &fn{dir: d, file: rel, name: name, decl: x}
					fn.canNil = returnsNil(x)
					fns = append(fns, fn)
					byName[x.Name.Name] = append(byName[x.Name.Name], fn)
				}
			}
		}
	}
	// reachability (name based, over-approximating)
	reach := map[*fn]bool{}
	var todo []*fn
	for _, r := range roots {
		parts := strings.SplitN(r, ":", 2)
		found := false
		for _, f := range fns {
			if f.dir == parts[0] && f.name == parts[1] {
				found = true
				if !reach[f] {
					reach[f] = true
					todo = append(todo, f)
				}
			}
		}
		if !found {
			fmt.Fprintln(os.Stderr, "root not found (source changed?):", r)
			os.Exit(3)
		}
	}
	for len(todo) > 0 {
		f := todo[len(todo)-1]
		todo = todo[:len(todo)-1]
		ast.Inspect(f.decl.Body, func(n ast.Node) bool {
			c, ok := n.(*ast.CallExpr)
			if !ok {
				return true
			}
			name := calleeName(c)
			if name == "" || stop[name] {
				return true
			}
			for _, g := range byName[name] {
				// a method of a client type is only entered through the dynamic interface methods or from its own package
				if g.decl.Recv != nil && g.dir != f.dir && !dynamic[name] && !strings.Contains(g.dir, "/keeper") && !strings.HasSuffix(g.dir, "/types") {
					continue
				}
				if !reach[g] {
					reach[g] = true
					todo = append(todo, g)
				}
			}
			return true
		})
	}
	canNil := map[string]bool{}
	for k := range nilExternal {
		canNil[k] = true
	}
	for _, f := range fns {
		if f.canNil {
			canNil[f.decl.Name.Name] = true
		}
	}

	for _, f := range fns {
		collectChecked(f)
	}
	var sites []Site
	for _, f := range fns {
		if !reach[f] {
			continue
		}
		sites = append(sites, scan(f, consts, canNil)...)
	}
	as, err := adapterSites(*repo)
	if err != nil {
		fmt.Fprintln(os.Stderr, "adapter sites:", err)
		os.Exit(6)
	}
	sites = append(sites, as...)
	sort.SliceStable(sites, func(i, j int) bool {
		if sites[i].File != sites[j].File {
			return sites[i].File < sites[j].File
		}
		return sites[i].Line < sites[j].Line
	})

	var expects []Expect
	if *expectF != "" {
		if b, err := os.ReadFile(*expectF); err == nil {
			var doc struct {
				Sites []Expect `json:"sites"`
			}
			if err := json.Unmarshal(b, &doc); err != nil {
				fmt.Fprintln(os.Stderr, "bad expectation file:", err)
				os.Exit(4)
			}
			expects = doc.Sites
		}
	}
	key := func(file, fn, kind, expr string) string { return file + "\x00" + fn + "\x00" + kind + "\x00" + expr }
	em := map[string]Expect{}
	for _, e := range expects {
		em[key(e.File, e.Func, e.Kind, e.Expr)] = e
	}
	var unmatched []Site
	byD := map[string]int{}
	matched := 0
	for i := range sites {
		s := &sites[i]
		if e, ok := em[key(s.File, s.Func, s.Kind, s.Expr)]; ok && e.Discharge != "" && e.Discharge != "TODO" {
			s.Discharge, s.By = e.Discharge, e.By
			matched++
			byD[e.Discharge]++
		} else {
			unmatched = append(unmatched, *s)
		}
	}
	rep := map[string]interface{}{"sites": len(sites), "matched": matched, "unmatched": unmatched, "by_discharge": byD,
		"functions_scanned": len(reach), "inventory": sites}
	if unmatched == nil {
		rep["unmatched"] = []Site{}
	}
	b, _ := json.MarshalIndent(rep, "", " ")
	if *out != "" {
		if err := os.WriteFile(*out, b, 0o644); err != nil {
			fmt.Fprintln(os.Stderr, err)
			os.Exit(5)
		}
	} else {
		fmt.Println(string(b))
	}
	if *initF != "" {
		seen := map[string]bool{}
		var sk []Expect
		for _, s := range sites {
			k := key(s.File, s.Func, s.Kind, s.Expr)
			if seen[k] {
				continue
			}
			seen[k] = true
			d, by := s.Discharge, s.By
			if d == "" {
				d = "TODO"
			}
			sk = append(sk, Expect{File: s.File, Func: s.Func, Kind: s.Kind, Expr: s.Expr, Discharge: d, By: by})
		}
		b, _ := json.MarshalIndent(map[string]interface{}{"sites": sk}, "", " ")
		_ = os.WriteFile(*initF, b, 0o644)
	}
	fmt.Fprintf(os.Stderr, "panicsites: %d functions reachable, %d sites, %d matched, %d unmatched\n", len(reach), len(sites), matched, len(unmatched))
}

// does the function have a pointer / interface / slice-like first result and a `return nil, …` ?
func returnsNil(d *ast.FuncDecl) bool {
	if d.Type.Results == nil || len(d.Type.Results.List) == 0 {
		return false
	}
	switch t := d.Type.Results.List[0].Type.(type) {
	case *ast.Ident:
		if t.Name == "error" || t.Name == "string" || t.Name == "bool" || strings.HasPrefix(t.Name, "uint") || strings.HasPrefix(t.Name, "int") {
			return false
		}
	case *ast.ArrayType, *ast.MapType:
		return false
	}
	nilRet := false
	ast.Inspect(d.Body, func(n ast.Node) bool {
		if _, ok := n.(*ast.FuncLit); ok {
			return false
		}
		if r, ok := n.(*ast.ReturnStmt); ok && len(r.Results) > 0 {
			if id, ok := r.Results[0].(*ast.Ident); ok && id.Name == "nil" {
				nilRet = true
			}
		}
		return true
	})
	return nilRet
}

func scan(f *fn, consts map[string]bool, canNil map[string]bool) []Site {
	var sites []Site
	add := func(n ast.Node, kind string) {
		sites = append(sites, Site{File: f.file, Func: f.name, Line: fset.Position(n.Pos()).Line, Kind: kind, Expr: text(n)})
	}
	// local maps: identifiers bound to make(map…) / map literals / declared with a map type
	maps := map[string]bool{}
	ast.Inspect(f.decl, func(n ast.Node) bool {
		switch x := n.(type) {
		case *ast.AssignStmt:
			for i, r := range x.Rhs {
				if i < len(x.Lhs) && isMapExpr(r) {
					if id, ok := x.Lhs[i].(*ast.Ident); ok {
						maps[id.Name] = true
					}
				}
			}
		case *ast.ValueSpec:
			if _, ok := x.Type.(*ast.MapType); ok {
				for _, n := range x.Names {
					maps[n.Name] = true
				}
			}
			for i, r := range x.Values {
				if i < len(x.Names) && isMapExpr(r) {
					maps[x.Names[i].Name] = true
				}
			}
		case *ast.Field:
			if _, ok := x.Type.(*ast.MapType); ok {
				for _, n := range x.Names {
					maps[n.Name] = true
				}
			}
		}
		return true
	})
	okAssert := map[*ast.TypeAssertExpr]bool{}
	ast.Inspect(f.decl.Body, func(n ast.Node) bool {
		switch x := n.(type) {
		case *ast.AssignStmt:
			if len(x.Lhs) == 2 && len(x.Rhs) == 1 {
				if ta, ok := x.Rhs[0].(*ast.TypeAssertExpr); ok {
					okAssert[ta] = true
				}
				if c, ok := x.Rhs[0].(*ast.CallExpr); ok {
					if id, ok := x.Lhs[1].(*ast.Ident); ok && id.Name == "_" && (parseFuncs[calleeName(c)] || nilExternal[calleeName(c)]) {
						guards := append([]string{}, checkedParsers[parseSig(c)]...)
						sort.Strings(guards)
						g := "NONE"
						if len(guards) > 0 {
							g = strings.Join(guards, ", ")
						}
						sites = append(sites, Site{File: f.file, Func: f.name, Line: fset.Position(x.Pos()).Line, Kind: "unchecked-ok",
							Expr: text(x) + " ## same parser checked in: " + g})
					}
				}
			}
		case *ast.ValueSpec:
			if len(x.Names) == 2 && len(x.Values) == 1 {
				if ta, ok := x.Values[0].(*ast.TypeAssertExpr); ok {
					okAssert[ta] = true
				}
			}
		}
		return true
	})
	ast.Inspect(f.decl.Body, func(n ast.Node) bool {
		switch x := n.(type) {
		case *ast.CallExpr:
			name := calleeName(x)
			if id, ok := x.Fun.(*ast.Ident); ok && id.Name == "panic" {
				add(x, "panic")
			} else if strings.HasPrefix(name, "Must") {
				add(x, "must-call")
			}
			// gas accounting in code that runs in Begin/EndBlock (proposal handlers, InitGenesis, upgrade handlers): a finite block
			// gas meter (consensus max_gas > 0) or ctx gas meter panics with ErrorOutOfGas on overflow, which only runTx recovers.
			// (KVStore access charged by the sdk's own gas-kv store is the sdk's and not listed.)
			if name == "ConsumeGas" || name == "BlockGasMeter" || name == "RefundGas" {
				add(x, "gas-meter-consumption-outside-tx")
			}
			if sel, ok := x.Fun.(*ast.SelectorExpr); ok {
				if inner, ok := sel.X.(*ast.CallExpr); ok && canNil[calleeName(inner)] {
					add(x, "nil-method")
				} else if nilRecv[name] {
					add(x, "nil-method")
				}
			}
		case *ast.BinaryExpr:
			if (x.Op == token.QUO || x.Op == token.REM) && !isConst(x.Y, consts) {
				add(x, "div")
			}
		case *ast.AssignStmt:
			if (x.Tok == token.QUO_ASSIGN || x.Tok == token.REM_ASSIGN) && !isConst(x.Rhs[0], consts) {
				add(x, "div")
			}
		case *ast.IndexExpr:
			if id, ok := x.X.(*ast.Ident); ok && maps[id.Name] {
				return true
			}
			add(x, "index")
		case *ast.SliceExpr:
			if x.Low == nil && x.High == nil {
				return true
			}
			add(x, "slice")
		case *ast.TypeAssertExpr:
			if x.Type != nil && !okAssert[x] {
				// provenance of the operand: a value the function just constructed (New…) is of the constructed type; a value that
				// comes out of a store / keeper / pool look-up (Get…, Load…, Find…, Lookup…) is whatever was stored there
				srcs := operandSources(f.decl, x.X)
				kind := "type-assert"
				for _, s := range srcs {
					if lookupName(s) {
						kind = "lookup-type-assert"
					}
				}
				sites = append(sites, Site{File: f.file, Func: f.name, Line: fset.Position(x.Pos()).Line, Kind: kind,
					Expr: text(x) + " ## operand from: " + strings.Join(srcs, ", ")})
			}
		}
		return true
	})
	return sites
}

func isMapExpr(e ast.Expr) bool {
	switch x := e.(type) {
	case *ast.CompositeLit:
		_, ok := x.Type.(*ast.MapType)
		return ok
	case *ast.CallExpr:
		if id, ok := x.Fun.(*ast.Ident); ok && id.Name == "make" && len(x.Args) > 0 {
			_, ok := x.Args[0].(*ast.MapType)
			return ok
		}
	}
	return false
}

func isConst(e ast.Expr, consts map[string]bool) bool {
	switch x := e.(type) {
	case *ast.BasicLit:
		return true
	case *ast.Ident:
		return consts[x.Name]
	case *ast.ParenExpr:
		return isConst(x.X, consts)
	case *ast.BinaryExpr:
		return isConst(x.X, consts) && isConst(x.Y, consts)
	}
	return false
}

// ---- callee-error-panics-in-caller --------------------------------------------------------------------------------------
// app.go hands adapter/bank.OverwriteBankKeeper to the cosmos-sdk gov and staking keepers.  Their code runs in EndBlock /
// BeginBlock without recover and turns an error of an overridden method into panic(err).  For every method the adapter
// overrides, every such caller site in the sdk packages that receive the adapter is listed, directly
// (`err := k.bankKeeper.M(…); if err != nil { panic(err) }`) or through an error-returning wrapper
// (`return k.bankKeeper.M(…)` in burnBondedTokens, whose callers panic).  The expression text carries the adapter method's own
// error guards (the conditions of its `if` statements; NONE today): adding a check to the adapter changes the text, the
// expectation no longer matches, and the new error return must be shown impossible for every caller again.
var sdkAdapterUsers = []string{"x/gov/keeper", "x/staking/keeper"}

func sdkDir(repo string) (string, error) {
	b, err := os.ReadFile(filepath.Join(repo, "go.mod"))
	if err != nil {
		return "", err
	}
	ver := ""
	for _, l := range strings.Split(string(b), "\n") {
		f := strings.Fields(l)
		if len(f) >= 2 && f[0] == "github.com/cosmos/cosmos-sdk" && strings.HasPrefix(f[1], "v") {
			ver = f[1]
		}
	}
	if ver == "" {
		return "", fmt.Errorf("cosmos-sdk version not found in go.mod")
	}
	cache := os.Getenv("GOMODCACHE")
	if cache == "" {
		gp := os.Getenv("GOPATH")
		if gp == "" {
			gp = filepath.Join(os.Getenv("HOME"), "go")
		}
		cache = filepath.Join(gp, "pkg", "mod")
	}
	d := filepath.Join(cache, "github.com", "cosmos", "cosmos-sdk@"+ver)
	if _, err := os.Stat(d); err != nil {
		return "", err
	}
	return d, nil
}

func hasPanicErr(body *ast.BlockStmt) bool {
	found := false
	ast.Inspect(body, func(n ast.Node) bool {
		if c, ok := n.(*ast.CallExpr); ok {
			if id, ok := c.Fun.(*ast.Ident); ok && id.Name == "panic" {
				found = true
			}
		}
		return true
	})
	return found
}

func adapterSites(repo string) ([]Site, error) {
	af, err := parser.ParseFile(fset, filepath.Join(repo, "adapter", "bank", "keeper.go"), nil, 0)
	if err != nil {
		return nil, err
	}
	guards := map[string]string{} // overridden method -> its own error guards
	for _, d := range af.Decls {
		fd, ok := d.(*ast.FuncDecl)
		if !ok || fd.Body == nil || recvName(fd) != "OverwriteBankKeeper" {
			continue
		}
		var conds []string
		ast.Inspect(fd.Body, func(n ast.Node) bool {
			if is, ok := n.(*ast.IfStmt); ok {
				conds = append(conds, text(is.Cond))
			}
			return true
		})
		g := "NONE"
		if len(conds) > 0 {
			g = strings.Join(conds, " ; ")
		}
		guards[fd.Name.Name] = g
	}
	if len(guards) == 0 {
		return nil, fmt.Errorf("no OverwriteBankKeeper methods found")
	}
	sdk, err := sdkDir(repo)
	if err != nil {
		return nil, err
	}
	var sites []Site
	for _, pkg := range sdkAdapterUsers {
		files, _ := filepath.Glob(filepath.Join(sdk, pkg, "*.go"))
		sort.Strings(files)
		type fnInfo struct {
			file string
			decl *ast.FuncDecl
		}
		var fns []fnInfo
		for _, f := range files {
			if strings.HasSuffix(f, "_test.go") {
				continue
			}
			pf, err := parser.ParseFile(fset, f, nil, 0)
			if err != nil {
				return nil, err
			}
			for _, d := range pf.Decls {
				if fd, ok := d.(*ast.FuncDecl); ok && fd.Body != nil {
					fns = append(fns, fnInfo{"cosmos-sdk/" + pkg + "/" + filepath.Base(f), fd})
				}
			}
		}
		// direct calls bankKeeper.M(...)
		wrappers := map[string]string{} // wrapper function name -> method
		for _, fi := range fns {
			fi := fi
			ast.Inspect(fi.decl.Body, func(n ast.Node) bool {
				c, ok := n.(*ast.CallExpr)
				if !ok {
					return true
				}
				sel, ok := c.Fun.(*ast.SelectorExpr)
				if !ok || guards[sel.Sel.Name] == "" {
					return true
				}
				if inner, ok := sel.X.(*ast.SelectorExpr); !ok || inner.Sel.Name != "bankKeeper" {
					return true
				}
				if hasPanicErr(fi.decl.Body) {
					sites = append(sites, Site{File: fi.file, Func: fi.decl.Name.Name, Line: fset.Position(c.Pos()).Line, Kind: "callee-error-panics-in-caller",
						Expr: text(c) + " ## adapter OverwriteBankKeeper." + sel.Sel.Name + " error guards: " + guards[sel.Sel.Name]})
				} else {
					wrappers[fi.decl.Name.Name] = sel.Sel.Name
				}
				return true
			})
		}
		for _, fi := range fns {
			fi := fi
			if !hasPanicErr(fi.decl.Body) {
				continue
			}
			ast.Inspect(fi.decl.Body, func(n ast.Node) bool {
				c, ok := n.(*ast.CallExpr)
				if !ok {
					return true
				}
				if m, isW := wrappers[calleeName(c)]; isW {
					sites = append(sites, Site{File: fi.file, Func: fi.decl.Name.Name, Line: fset.Position(c.Pos()).Line, Kind: "callee-error-panics-in-caller",
						Expr: text(c) + " ## via " + calleeName(c) + " -> adapter OverwriteBankKeeper." + m + " error guards: " + guards[m]})
				}
				return true
			})
		}
	}
	return sites, nil
}

func lookupName(n string) bool {
	for _, p := range []string{"Get", "MustGet", "Load", "Find", "Lookup", "Fetch", "Query", "Iterate"} {
		if strings.HasPrefix(n, p) {
			return true
		}
	}
	return false
}

// the callees (or expression texts) of everything assigned, in this function, to the operand of a type assertion
func operandSources(fd *ast.FuncDecl, x ast.Expr) []string {
	set := map[string]bool{}
	srcOf := func(e ast.Expr) string {
		if c, ok := e.(*ast.CallExpr); ok {
			if n := calleeName(c); n != "" {
				return n
			}
		}
		return text(e)
	}
	switch v := x.(type) {
	case *ast.CallExpr:
		set[srcOf(v)] = true
	case *ast.Ident:
		ast.Inspect(fd, func(n ast.Node) bool {
			switch a := n.(type) {
			case *ast.AssignStmt:
				for i, l := range a.Lhs {
					if id, ok := l.(*ast.Ident); ok && id.Name == v.Name {
						if len(a.Rhs) == len(a.Lhs) {
							set[srcOf(a.Rhs[i])] = true
						} else if len(a.Rhs) == 1 {
							set[srcOf(a.Rhs[0])] = true
						}
					}
				}
			case *ast.ValueSpec:
				for i, nm := range a.Names {
					if nm.Name == v.Name && i < len(a.Values) {
						set[srcOf(a.Values[i])] = true
					}
				}
			case *ast.Field: // parameter / receiver
				for _, nm := range a.Names {
					if nm.Name == v.Name {
						set["parameter"] = true
					}
				}
			case *ast.RangeStmt:
				for _, e := range []ast.Expr{a.Key, a.Value} {
					if id, ok := e.(*ast.Ident); ok && id.Name == v.Name {
						set["range "+text(a.X)] = true
					}
				}
			}
			return true
		})
	default:
		set[text(x)] = true
	}
	var out []string
	for k := range set {
		out = append(out, k)
	}
	sort.Strings(out)
	if len(out) == 0 {
		out = []string{"?"}
	}
	return out
}
