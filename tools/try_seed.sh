#!/bin/bash
# try_seed.sh <seed-id> <Cxx> [tier]  — apply seeded/<seed-id>/patch.diff to /repo, run the check, undo
S=$1; C=$2; T=${3:-quick}
cd /verif
if ! git -C /repo apply --check /verif/seeded/$S/patch.diff 2>/dev/null; then
  if git -C /repo apply --check -3 /verif/seeded/$S/patch.diff 2>/dev/null; then :; else echo "SEED $S: patch does not apply to current /repo"; exit 3; fi
fi
git -C /repo apply /verif/seeded/$S/patch.diff || exit 3
(cd /repo && GOFLAGS=-mod=mod GOPROXY=off GOSUMDB=off GOTOOLCHAIN=local go build ./... ) || { echo "SEED $S: does not compile"; git -C /repo checkout -- .; exit 3; }
cp evidence/$C.json build/evidence_$C.keep 2>/dev/null
./check $C --tier $T > build/seed_$S.log 2>&1; rc=$?
cp build/evidence_$C.keep evidence/$C.json 2>/dev/null
git -C /repo checkout -- . ; git -C /repo clean -fdq
grep -E "^VIOLATION|^$C " build/seed_$S.log | head -4
echo "SEED $S on $C: exit $rc"
