#!/bin/bash
# try_seed.sh <seed-id> <Cxx> [tier] — run a check against the seeded change WITHOUT touching /repo: the patch is applied to a
# scratch worktree of /repo HEAD and the check runs with VERIF_REPO pointing at it (same effect as
# `git -C /repo apply`, `./check`, `git -C /repo checkout -- .`, but safe while other work uses /repo). The property's
# evidence file is preserved (evidence must come from runs on the unchanged tree).
S=$1; C=$2; T=${3:-quick}
cd /verif
WT=/tmp/seedrun/$S-$C
rm -rf $WT; git -C /repo worktree prune; mkdir -p /tmp/seedrun
git -C /repo worktree add -q --detach $WT HEAD || exit 3
if ! git -C $WT apply /verif/seeded/$S/patch.diff 2>/dev/null; then
  echo "SEED $S: patch does not apply to current /repo HEAD"; git -C /repo worktree remove --force $WT; exit 3
fi
(cd $WT && GOFLAGS=-mod=mod GOPROXY=off GOSUMDB=off GOTOOLCHAIN=local go build ./... ) || { echo "SEED $S: does not compile"; git -C /repo worktree remove --force $WT; exit 3; }
# one seeded run per property at a time: the evidence file is saved and restored around it
exec 8>build/try_$C.lock; flock 8
cp evidence/$C.json build/evidence_$C.keep 2>/dev/null
VERIF_REPO=$WT ./check $C --tier $T > build/seed_$S.log 2>&1; rc=$?
cp build/evidence_$C.keep evidence/$C.json 2>/dev/null
flock -u 8
true
git -C /repo worktree remove --force $WT
grep -E "^VIOLATION|^$C " build/seed_$S.log | head -4
echo "SEED $S on $C: exit $rc"
