#!/bin/bash
# seed_all.sh <seed-id> <Cxx> '<demo cmd>' — store, confirm, (try is run separately since it needs exclusive /repo)
S=$1; C=$2; D=$3
cd /verif; mkdir -p seeded/$S; cp /tmp/seed/$S/out/patch.diff /tmp/seed/$S/out/meta.json seeded/$S/ 2>/dev/null; cp -r /tmp/seed/$S/out/demo seeded/$S/ 2>/dev/null
tools/confirm_seed.sh $S "$D" 2>&1 | tail -1
